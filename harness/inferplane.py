"""Build real Predictor objects (from OmegaConf configs, no checkpoints) around ideal-network stubs and run
predict() on in-memory coordinate-coded frames.  Used by C02, C03, C12."""
import math

import numpy as np

from harness.idealnet import IdealNet, frame_image


def conf_single(scale, max_stride, out_stride, max_h, max_w, n_nodes):
    from omegaconf import OmegaConf
    return OmegaConf.create({
        "model_config": {"backbone_config": {"unet": {"max_stride": max_stride}},
                         "head_configs": {"single_instance": {"confmaps": {"output_stride": out_stride, "part_names": ["n%d" % i for i in range(n_nodes)]}}}},
        "data_config": {"preprocessing": {"scale": scale, "is_rgb": True, "max_height": max_h, "max_width": max_w}},
    })


def conf_centroid(scale, max_stride, out_stride, max_h, max_w, anchor):
    from omegaconf import OmegaConf
    return OmegaConf.create({
        "model_config": {"backbone_config": {"unet": {"max_stride": max_stride}},
                         "head_configs": {"centroid": {"confmaps": {"output_stride": out_stride, "anchor_part": anchor}}}},
        "data_config": {"preprocessing": {"scale": scale, "is_rgb": True, "max_height": max_h, "max_width": max_w, "crop_hw": None}},
    })


def conf_centered(scale, max_stride, out_stride, max_h, max_w, crop, anchor, n_nodes, cropw=None):
    from omegaconf import OmegaConf
    return OmegaConf.create({
        "model_config": {"backbone_config": {"unet": {"max_stride": max_stride}},
                         "head_configs": {"centered_instance": {"confmaps": {"output_stride": out_stride, "anchor_part": anchor, "part_names": ["n%d" % i for i in range(n_nodes)]}}}},
        "data_config": {"preprocessing": {"scale": scale, "is_rgb": True, "max_height": max_h, "max_width": max_w, "crop_hw": [crop, cropw or crop]}},
    })


def conf_bottomup(scale, max_stride, cms_stride, paf_stride, max_h, max_w, n_nodes, edges):
    from omegaconf import OmegaConf
    names = ["n%d" % i for i in range(n_nodes)]
    return OmegaConf.create({
        "model_config": {"backbone_config": {"unet": {"max_stride": max_stride}},
                         "head_configs": {"bottomup": {"confmaps": {"output_stride": cms_stride, "part_names": names},
                                                       "pafs": {"output_stride": paf_stride, "edges": [[names[a], names[b]] for a, b in edges]}}}},
        "data_config": {"preprocessing": {"scale": scale, "is_rgb": True, "max_height": max_h, "max_width": max_w}},
    })


def make_source(frames, n_nodes, edges=None):
    """frames: list of dict(hw, animals) -> real sio.Labels on coordinate-coded images (frame id coded in G)."""
    from harness.labels_util import make_labels

    fl = []
    for fid, fr in enumerate(frames):
        h, w = fr["hw"]
        inst = [np.asarray(a, dtype="float64") for a in fr["animals"]]
        if not inst:  # LabelsReader needs a labelled frame; an all-NaN instance is an empty instance
            inst = [np.full((n_nodes, 2), np.nan)]
        fl.append(dict(image=frame_image(h, w, fid), instances=inst, video=int(fr.get("video", 0))))
    return make_labels(fl, n_nodes=n_nodes, edges=edges)


def run_predictor(pred, provider, labels, batch_size, make_labels=False, stream_log=None, queue_maxsize=4, video_range=None):
    """Substitute the sio loaders, call the REAL make_pipeline and predict().
    stream_log: a harness.sched.Sched(forced=False); when given, the frame queue is a SchedQueue and frame reads of
    video 0 are logged, so the same run also yields a FrameStream trace (reader/consumer events under the queue mutex)."""
    import sleap_nn.data.providers as prov

    old = (prov.sio.load_slp, prov.sio.load_video, prov.Queue)
    prov.sio.load_slp = lambda fn, **kw: labels
    prov.sio.load_video = lambda fn, **kw: labels.videos[0]
    restore = []
    if stream_log is not None:
        from harness.sched import SchedQueue
        SchedQueue.sched = stream_log
        SchedQueue.created = []
        prov.Queue = SchedQueue
        for v in labels.videos:
            be = v.backend

            class _LogBackend:
                """delegates to the array backend, logging every single-frame read (the reader thread's 'read' step)"""

                def __init__(self, inner):
                    self.__dict__["_inner"] = inner

                def __getitem__(self, i):
                    import threading
                    # only the reader thread's reads are FrameStream steps (label construction re-reads images later)
                    if not isinstance(i, (list, tuple, slice)) and isinstance(threading.current_thread(), (prov.LabelsReader, prov.VideoReader)):
                        stream_log.log("read", int(i))
                    return self._inner[i]

                def __len__(self):
                    return len(self._inner)

                def __getattr__(self, k):
                    return getattr(self._inner, k)

            v.backend = _LogBackend(be)
            restore.append((v, be))
    try:
        if video_range is not None:
            pred.make_pipeline(provider, "mem://source", queue_maxsize=queue_maxsize, video_start_idx=video_range[0], video_end_idx=video_range[1])
        else:
            pred.make_pipeline(provider, "mem://source", queue_maxsize=queue_maxsize)
    finally:
        prov.sio.load_slp, prov.sio.load_video, prov.Queue = old
    pred.pipeline.daemon = True
    try:
        if stream_log is not None:
            real_join = pred.pipeline.join

            def join_w(timeout=None):
                real_join(timeout=120.0)
                stream_log.log("join")

            pred.pipeline.join = join_w
            real_model = pred.inference_model
            if real_model is not None:
                def model_w(ex, _m=real_model):
                    stream_log.log("infer", [int(x) for x in ex["frame_idx"]])
                    return _m(ex)

                pred.inference_model = model_w
        out = pred.predict(make_labels=make_labels)
        if stream_log is not None:
            stream_log.log("end")
        return out
    finally:
        for v, be in restore:
            v.backend = be


def build_single(cfg, frames, n_nodes):
    from sleap_nn.inference.predictors import SingleInstancePredictor
    import sleap_io as sio

    conf = conf_single(cfg["scale"], cfg["max_stride"], cfg["stride"], cfg.get("max_h"), cfg.get("max_w"), n_nodes)
    stub = IdealNet("single", frames, cfg["stride"], n_nodes)
    skel = sio.Skeleton(nodes=["n%d" % i for i in range(n_nodes)])
    pred = SingleInstancePredictor(confmap_config=conf, confmap_model=stub, peak_threshold=0.2, integral_refinement=cfg.get("refine"),
                                   integral_patch_size=5, batch_size=cfg["batch"], skeletons=[skel], preprocess_config=None)
    pred._initialize_inference_model()  # as from_trained_models does
    return pred, [stub]


def build_topdown(cfg, frames, n_nodes, max_instances=None):
    from sleap_nn.inference.predictors import TopDownPredictor
    import sleap_io as sio

    anchor = cfg.get("anchor")
    cc = conf_centroid(cfg["cscale"], cfg["max_stride"], cfg["cstride"], cfg.get("max_h"), cfg.get("max_w"), anchor)
    ic = conf_centered(cfg["scale"], cfg["max_stride"], cfg["stride"], cfg.get("max_h"), cfg.get("max_w"), cfg["crop"], anchor, n_nodes, cfg.get("cropw"))
    s1 = IdealNet("centroid", frames, cfg["cstride"], n_nodes, anchor=anchor)
    s2 = IdealNet("centered", frames, cfg["stride"], n_nodes, anchor=anchor, crop=(cfg["crop"], cfg.get("cropw") or cfg["crop"]))
    skel = sio.Skeleton(nodes=["n%d" % i for i in range(n_nodes)])
    pred = TopDownPredictor(centroid_config=cc, confmap_config=ic, centroid_model=s1, confmap_model=s2,
                            centroid_backbone_type="unet", centered_instance_backbone_type="unet", skeletons=[skel],
                            peak_threshold=0.2, integral_refinement=cfg.get("refine"), integral_patch_size=5,
                            batch_size=cfg["batch"], max_instances=max_instances, preprocess_config=None)
    pred._initialize_inference_model()  # as from_trained_models does
    return pred, [s1, s2]


def build_bottomup(cfg, frames, n_nodes, edges, max_instances=None):
    from sleap_nn.inference.predictors import BottomUpPredictor
    import sleap_io as sio

    conf = conf_bottomup(cfg["scale"], cfg["max_stride"], cfg["stride"], cfg["pstride"], cfg.get("max_h"), cfg.get("max_w"), n_nodes, edges)
    stub = IdealNet("bottomup", frames, cfg["stride"], n_nodes, edges=edges, paf_stride=cfg["pstride"])
    names = ["n%d" % i for i in range(n_nodes)]
    skel = sio.Skeleton(nodes=names, edges=[(names[a], names[b]) for a, b in edges])
    pred = BottomUpPredictor(bottomup_config=conf, bottomup_model=stub, skeletons=[skel], peak_threshold=0.2,
                             integral_refinement=cfg.get("refine"), integral_patch_size=5, batch_size=cfg["batch"],
                             max_instances=max_instances, preprocess_config=None)
    pred._initialize_inference_model()  # as from_trained_models does
    return pred, [stub]


# ------------------------------------------------------------------------------------ results ---
def collect(kind, outs):
    """Per frame_idx: list of predicted instances as (points (n_nodes, 2) in ORIGINAL coordinates, values, score)."""
    res = {}
    for ex in outs:
        if kind == "single":
            for fi, vi, pts, vals in zip(ex["frame_idx"], ex["video_idx"], ex["pred_instance_peaks"], ex["pred_peak_values"]):
                res.setdefault((int(vi), int(fi)), []).append((np.asarray(pts, dtype=np.float64), np.asarray(vals, dtype=np.float64), 1.0))
        elif kind == "topdown":
            for fi, vi, bbox, pts, vals, cv in zip(ex["frame_idx"], ex["video_idx"], ex["instance_bbox"], ex["pred_instance_peaks"], ex["pred_peak_values"], ex["centroid_val"]):
                p = np.asarray(pts, dtype=np.float64) + np.asarray(bbox, dtype=np.float64).squeeze(axis=0)[0, :]
                res.setdefault((int(vi), int(fi)), []).append((p, np.asarray(vals, dtype=np.float64), float(cv)))
        else:
            for fi, vi, insts, vals, scs in zip(ex["frame_idx"], ex["video_idx"], ex["pred_instance_peaks"], ex["pred_peak_values"], ex["instance_scores"]):
                res.setdefault((int(vi), int(fi)), [])
                for pts, v, s in zip(insts, vals, scs):
                    res[(int(vi), int(fi))].append((np.asarray(pts, dtype=np.float64), np.asarray(v, dtype=np.float64), float(s)))
    return res


def q64(x):
    return int(round(float(x) * 64))


def inst_record(pts, vals):
    """projection of one predicted instance: per node [x64, y64, nan flag, value x 10^4]"""
    out = []
    for (x, y), v in zip(pts, vals):
        if math.isnan(x) or math.isnan(y):
            out.append([0, 0, 1, 0 if (math.isnan(v) or v == 0) else int(round(v * 10000))])
        else:
            out.append([q64(x), q64(y), 0, 0 if math.isnan(v) else int(round(v * 10000))])
    return out
