#!/bin/sh
# Run every registered thorough check (and the extension checks X01..X07) once; one line per run.
cd "$(dirname "$0")/.."
for p in $(/venv/bin/python -c "import json; print(' '.join(c['property_id'] for c in json.load(open('MANIFEST.json'))['checks']))") X01 X02 X03 X04 X05 X06 X07; do
  start=$(date +%s)
  VERIF_SEED=${SEED:-0} ./check $p --tier thorough > /tmp/tsweep_$$.log 2>&1; rc=$?
  echo "$p thorough rc=$rc wall=$(( $(date +%s) - start ))s $(grep -c '^VIOLATION' /tmp/tsweep_$$.log) violations $(grep -c '^KNOWN-FINDING' /tmp/tsweep_$$.log) known $(grep -m1 'MACHINERY' /tmp/tsweep_$$.log | cut -c1-200)"
  [ $rc -ne 0 ] && grep '^VIOLATION' /tmp/tsweep_$$.log | cut -c1-400 | head -3
done
rm -f /tmp/tsweep_$$.log
