"""Real trained networks (the repository's test checkpoints) through the repository's own inference entry point
sleap_nn.inference.predictors.main() on the asset video.  Extends C12 / C13 / C09 from ideal stubs to real models."""
import os

import numpy as np

CKPT = {"bottomup": ["tests/assets/minimal_instance_bottomup"],
        "topdown": ["tests/assets/minimal_instance_centroid", "tests/assets/minimal_instance"]}
VIDEO = "tests/assets/centered_pair_small.mp4"


def predict_range(repo, model, start, end, batch_size, queue_maxsize=4, peak_threshold=0.1, max_instances=None, refine=None, tracking=None):
    """Runs main() on frames [start, end) of the asset video.  Returns [(frame_idx, [(points, score, track)])] in OUTPUT order."""
    from sleap_nn.inference.predictors import main

    kw = {}
    if tracking:
        kw = dict(tracking=True, tracking_window_size=tracking["w"], candidates_method=tracking["candidates"], features=tracking["feat"],
                  scoring_method=tracking["score"], scoring_reduction=tracking["red"], track_matching_method=tracking["match"])
    lab = main(data_path=os.path.join(repo, VIDEO), model_paths=[os.path.join(repo, d) for d in CKPT[model]], provider="VideoReader",
               batch_size=batch_size, queue_maxsize=queue_maxsize, videoreader_start_idx=start, videoreader_end_idx=end,
               peak_threshold=peak_threshold, integral_refinement=refine, max_instances=max_instances, make_labels=True, device="cpu", **kw)
    out = []
    for lf in lab:
        insts = []
        for x in lf.instances:
            q = np.asarray(x.numpy(), dtype=np.float64)
            if not np.any(np.isfinite(q)):
                continue
            trk = -1
            if getattr(x, "track", None) is not None:
                try:
                    trk = int(x.track.name)
                except Exception:
                    trk = -2
            insts.append((q, float(x.score) if x.score is not None else 0.0, trk))
        out.append((int(lf.frame_idx), insts))
    return out
