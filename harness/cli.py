"""./check CLI: run one property's driver, match violations against known_findings.json, write evidence.

exit 0: property held on everything explored (KNOWN-FINDING lines may be printed)
exit 1: at least one violation that known_findings.json does not list; 'VIOLATION property=<id> replay=<path>'
exit 2: machinery failure (TLC crash, timeout, malformed trace) - never reported as a violation
"""
import argparse
import importlib
import json
import os
import sys
import traceback

ROOT = os.path.dirname(os.path.dirname(os.path.abspath(__file__)))
sys.path.insert(0, ROOT)


def load_known(prop):
    with open(os.path.join(ROOT, "known_findings.json")) as f:
        kf = json.load(f)
    return [e for e in kf.get("findings", []) if e["property"] == prop]


def matches(entry, v):
    return all(v.key.get(k) == val for k, val in entry["match"].items())


def main():
    ap = argparse.ArgumentParser()
    ap.add_argument("prop")
    ap.add_argument("--tier", default=os.environ.get("VERIF_TIER", "quick"), choices=["quick", "thorough"])
    ap.add_argument("--replay")
    ap.add_argument("--seed", type=int, default=int(os.environ.get("VERIF_SEED", "0") or 0))
    a = ap.parse_args()
    from harness import shim  # noqa: F401  (path + kornia shim before any sleap_nn import)
    from harness.evidence import write_evidence
    from harness.tlc import TLCError

    shim.seed_all(a.seed)
    try:
        drv = importlib.import_module("drivers." + a.prop)
        if a.replay:
            with open(a.replay) as f:
                rp = json.load(f)
            res = drv.replay(rp, a.seed)
        else:
            res = drv.run(a.tier, a.seed)
    except TLCError as e:
        print("MACHINERY-FAILURE property=%s %s" % (a.prop, e), file=sys.stderr)
        sys.exit(2)
    except Exception:
        traceback.print_exc()
        print("MACHINERY-FAILURE property=%s (driver exception)" % a.prop, file=sys.stderr)
        sys.exit(2)

    known = load_known(a.prop)
    new, seen_known = [], {}
    for v in res.violations:
        e = next((e for e in known if matches(e, v)), None)
        if e is None:
            new.append(v)
        else:
            seen_known.setdefault(e["id"], (e, 0))
            seen_known[e["id"]] = (e, seen_known[e["id"]][1] + 1)
    for eid, (e, n) in sorted(seen_known.items()):
        print("KNOWN-FINDING: property=%s %s (%s; %d case(s) this run)" % (a.prop, e["what"], eid, n))
    res.new_violations = new
    res.coverage["known_finding_cases"] = {k: n for k, (e, n) in seen_known.items()}
    rdir = os.path.join(os.environ.get("VERIF_REPLAY_DIR") or os.path.join(ROOT, "replays"), a.prop)   # self-test runs use their own scratch dir
    if not a.replay and os.path.isdir(rdir):
        import shutil
        shutil.rmtree(rdir, ignore_errors=True)
    shown = {}
    for v in new:
        sig = json.dumps(v.key, sort_keys=True)
        shown[sig] = shown.get(sig, 0) + 1
        if shown[sig] > 3 or a.replay:
            continue
        os.makedirs(rdir, exist_ok=True)
        path = os.path.join(rdir, "%s_%d.json" % (v.clause.replace("/", "_")[:40], len(os.listdir(rdir))))
        with open(path, "w") as f:
            json.dump(v.to_json(), f, indent=1, default=str)
        print("VIOLATION property=%s replay=%s clause=%s key=%s %s" % (a.prop, path, v.clause, json.dumps(v.key, sort_keys=True), v.detail[:300]))
    if a.replay:
        for v in new:
            print("VIOLATION property=%s replay=%s clause=%s %s" % (a.prop, a.replay, v.clause, v.detail[:300]))
    else:
        if new:
            res.coverage["violation_signatures"] = shown
        path = "(suppressed)" if os.environ.get("VERIF_NO_EVIDENCE") else write_evidence(res, a.tier, a.seed)
        print("evidence: %s  (states=%d traces=%d evaluations=%d wall=%.1fs)" % (
            path, res.coverage["states"], res.coverage["traces_validated_against_impl"],
            res.coverage["evaluations"], __import__("time").time() - res.t0))
    sys.exit(1 if new else 0)


if __name__ == "__main__":
    main()
