"""C11 helper: real Dataset objects on in-memory label sets, observed as DataStore trace events.

Nothing here decides a verdict.  It builds inputs (sio.Labels with user / predicted instances on a
quarter-pixel lattice, array-backed videos), runs the REAL classes / functions of /repo, and projects what
it sees to small integers:

  * key points      -> [x4, y4, v]   (v = 1 finite, 0 NaN, 2 half-NaN / non-finite garbage)
  * "unchanged"     -> 0 / 1 class ids by comparison with a deep snapshot taken earlier: same keys, same
                       shapes, same NaN masks, allclose (never a hash of rounded floats)
  * map channels    -> 1 iff identically zero
  * instance lists  -> indices of the ORIGINAL instance objects (identity), 0 = foreign object

TLC (Trace_DataStore / Judge_C11) judges.
"""
import os
import shutil
import tempfile

import numpy as np
import torch

TMP_ROOT = None  # set by the driver BEFORE forking workers: every np_chunks directory lives below it and the
#                  driver removes it in a finally (so nothing is left behind when workers are terminated)
CLASS_NAME = {"bottomup": "BottomUpDataset", "centered": "CenteredInstanceDataset",
              "centroid": "CentroidDataset", "single": "SingleInstanceDataset"}
ATOL = 1e-6


# ------------------------------------------------------------------------------- label sets ----
def lattice_point(f, a, n):
    """Quarter-pixel lattice coordinates, unique per (frame, animal, node) (1-based), inside 40 x 48."""
    return [24 + 36 * (n - 1) + 9 * (a - 1) + (f - 1), 28 + 16 * (n - 1) + 26 * (a - 1) + 2 * (f - 1), 1]


def lab_from_vis(vis):
    """TLC's LabVis (frames of <<kind, <<v...>>>>) -> lab structure with lattice coordinates."""
    lab = []
    for f, fr in enumerate(vis, 1):
        row = []
        for a, (k, vs) in enumerate(fr, 1):
            row.append(dict(k=k, p=[lattice_point(f, a, n) if v else [0, 0, 0] for n, v in enumerate(vs, 1)]))
        lab.append(row)
    return lab


def n_nodes_of(lab):
    return next(len(i["p"]) for fr in lab for i in fr)


class Built:
    """sio.Labels built from a lab structure, with handles on everything the dataset could touch."""

    def __init__(self, lab, hw=(40, 48), channels=1, seed=0, two_videos=True):
        import sleap_io as sio
        from harness.labels_util import ArrayBackend, ArrayVideo, make_skeleton
        from harness.shim import predicted_instance

        nn = n_nodes_of(lab)
        self.lab, self.nn = lab, nn
        self.skeleton = make_skeleton(nn)
        rng = np.random.RandomState(seed)
        nv = 2 if (two_videos and len(lab) >= 2) else 1
        self.images = [rng.randint(1, 255, size=(hw[0], hw[1], channels)).astype(np.uint8) for _ in lab]
        vids = []
        for v in range(nv):
            imgs = [self.images[f] for f in range(len(lab)) if f % nv == v]
            vids.append(ArrayVideo(filename="mem://video%d" % v, backend=ArrayBackend(imgs, "mem://video%d" % v), open_backend=True))
        self.pos = {}  # (video_idx, frame_idx) -> 1-based frame position
        self.orig, lfs, cnt = [], [], [0] * nv
        for f, fr in enumerate(lab):
            v = f % nv
            insts = []
            for i in fr:
                pts = np.array([[p[0] / 4.0, p[1] / 4.0] if p[2] else [np.nan, np.nan] for p in i["p"]], dtype="float64")
                inst = (predicted_instance(pts, skeleton=self.skeleton) if i["k"] == "p"
                        else sio.Instance.from_numpy(pts, skeleton=self.skeleton))
                if seed % 2 == 1:
                    # every second label set: a missing node keeps STALE coordinates in the file, marked not visible (what the
                    # SLEAP GUI writes when a node is hidden) - it is just as missing as a NaN node (Instance.numpy() says NaN)
                    for n, p_ in enumerate(i["p"]):
                        if not p_[2]:
                            inst.points["xy"][n] = (hw[1] / 2.0 + 2 * n, hw[0] / 2.0 - n)
                            inst.points["visible"][n] = False
                insts.append(inst)
            self.orig.append(insts)
            lfs.append(sio.LabeledFrame(video=vids[v], frame_idx=cnt[v], instances=list(insts)))
            self.pos[(v, cnt[v])] = f + 1
            cnt[v] += 1
        self.lfs = lfs
        self.labels = sio.Labels(videos=vids, skeletons=[self.skeleton], labeled_frames=lfs)
        self.snap = self.label_arrays()

    def label_arrays(self):
        return [[np.array(i.numpy(), dtype="float64", copy=True) for i in insts] for insts in self.orig] + \
               [[im.copy() for im in self.images]]

    def labels_class(self):
        return 0 if same_value(self.label_arrays(), self.snap) else 1

    def membership(self):
        out = []
        for f, lf in enumerate(self.lfs):
            ids = []
            for inst in lf.instances:
                k = next((j + 1 for j, o in enumerate(self.orig[f]) if o is inst), 0)
                ids.append(k)
            out.append(ids)
        return out


# ------------------------------------------------------------------------------- comparison ----
def _np(v):
    if isinstance(v, torch.Tensor):
        return v.detach().cpu().numpy()
    if isinstance(v, np.ndarray):
        return v
    if hasattr(v, "size") and hasattr(v, "mode") and hasattr(v, "tobytes"):  # PIL image
        return np.asarray(v)
    return None


def same_value(a, b):
    """Structural equality: dict keys, sequence lengths, array shapes, NaN masks, allclose."""
    if isinstance(a, dict) or isinstance(b, dict):
        if not (isinstance(a, dict) and isinstance(b, dict)) or set(a.keys()) != set(b.keys()):
            return False
        return all(same_value(a[k], b[k]) for k in a)
    if isinstance(a, (list, tuple)) or isinstance(b, (list, tuple)):
        if not (isinstance(a, (list, tuple)) and isinstance(b, (list, tuple))) or len(a) != len(b):
            return False
        return all(same_value(x, y) for x, y in zip(a, b))
    xa, xb = _np(a), _np(b)
    if xa is None or xb is None:
        if xa is None and xb is None:
            return a == b
        xa = np.asarray(a) if xa is None else xa
        xb = np.asarray(b) if xb is None else xb
    if xa.shape != xb.shape:
        return False
    if xa.dtype.kind in "fc" or xb.dtype.kind in "fc":
        xa = xa.astype(np.float64)
        xb = xb.astype(np.float64)
        na, nb = np.isnan(xa), np.isnan(xb)
        if not np.array_equal(na, nb):
            return False
        fa, fb = np.where(na, 0.0, xa), np.where(nb, 0.0, xb)
        ia, ib = np.isinf(fa), np.isinf(fb)
        if not np.array_equal(ia, ib) or not np.array_equal(fa[ia], fb[ib]):
            return False
        return bool(np.all(np.abs(np.where(ia, 0.0, fa) - np.where(ib, 0.0, fb)) <= ATOL + ATOL * np.abs(np.where(ib, 0.0, fb))))
    return bool(np.array_equal(xa, xb))


def deep_clone(v):
    if isinstance(v, dict):
        return {k: deep_clone(x) for k, x in v.items()}
    if isinstance(v, (list, tuple)):
        return [deep_clone(x) for x in v]
    if isinstance(v, torch.Tensor):
        return v.detach().clone()
    if isinstance(v, np.ndarray):
        return v.copy()
    x = _np(v)
    return x.copy() if x is not None else v


def pt3(x, y):
    fx, fy = np.isfinite(x), np.isfinite(y)
    if fx and fy:
        if abs(x) > 2 ** 20 or abs(y) > 2 ** 20:
            return [0, 0, 2]
        return [int(round(float(x) * 4)), int(round(float(y) * 4)), 1]
    if np.isnan(x) and np.isnan(y):
        return [0, 0, 0]
    return [0, 0, 2]


def rows_of(t):
    """(..., n_nodes, 2) -> rows of [x4, y4, v]; leading singleton sample axis dropped."""
    a = _np(t).astype(np.float64)
    a = a.reshape(-1, a.shape[-2], 2)
    return [[pt3(x, y) for x, y in row] for row in a]


def zero_channels(t):
    a = _np(t)
    a = a.reshape(-1, a.shape[-2], a.shape[-1])
    return [1 if not np.any(a[c] != 0) else 0 for c in range(a.shape[0])]


# ------------------------------------------------------------------------------- datasets ------
def make_dataset(cfg, built, chunk_dir=None):
    from omegaconf import DictConfig, OmegaConf
    import sleap_nn.data.custom_datasets as cd

    scale = cfg.get("scale", 1.0)
    dc = OmegaConf.create({"user_instances_only": bool(cfg["uio"]),
                           "preprocessing": {"max_height": None, "max_width": None, "scale": scale,
                                             "is_rgb": bool(cfg.get("rgb", False))},
                           "use_augmentations_train": False})
    anchor = None if cfg["anchor"] == 0 else cfg["anchor"] - 1
    head = DictConfig({"sigma": cfg.get("sigma", 1.5), "output_stride": cfg.get("ostride", 2), "anchor_part": anchor})
    kw = dict(labels=built.labels, data_config=dc, max_stride=cfg.get("max_stride", 8), scale=scale, apply_aug=False,
              max_hw=tuple(cfg.get("max_hw", (None, None))), confmap_head_config=head)
    if cfg["chunks"]:
        kw.update(np_chunks=True, np_chunks_path=chunk_dir)
    cls = cfg["cls"]
    if cls == "bottomup":
        return cd.BottomUpDataset(pafs_head_config=DictConfig({"sigma": 4, "output_stride": cfg.get("pstride", 4)}), **kw)
    if cls == "centered":
        return cd.CenteredInstanceDataset(crop_hw=tuple(cfg.get("crop_hw", (16, 16))), **kw)
    if cls == "centroid":
        return cd.CentroidDataset(**kw)
    if cls == "single":
        return cd.SingleInstanceDataset(**kw)
    raise ValueError(cls)


PTS_KEY = {"bottomup": "instances", "single": "instances", "centroid": "instances", "centered": "instance"}


def store_snapshot(ds, cfg, chunk_dir):
    """Deep snapshot of what the dataset keeps: the cache dict, or the content of every .npz on disk."""
    if not cfg["chunks"]:
        return {int(k): deep_clone(v) for k, v in ds.cache.items()}
    snap = {}
    for fn in sorted(os.listdir(chunk_dir)):
        if fn.endswith(".npz"):
            with np.load(os.path.join(chunk_dir, fn)) as z:
                snap[fn] = {k: z[k].copy() for k in z.files}
        else:
            snap[fn] = "other-file"
    return snap


def store_entries(snap, cfg, n):
    """index -> entry dict (None when missing) from a snapshot."""
    if not cfg["chunks"]:
        return [snap.get(i) for i in range(n)]
    return [snap.get("sample_%d.npz" % i) for i in range(n)]


def store_classes(now, snap0, cfg):
    keys0 = sorted(snap0.keys(), key=str)
    out = [0 if (k in now and same_value(now[k], snap0[k])) else 1 for k in keys0]
    out += [1 for k in now if k not in snap0]
    return out


def frame_pos(built, entry):
    try:
        return built.pos.get((int(_np(entry["video_idx"])), int(_np(entry["frame_idx"]))), 0)
    except Exception:  # noqa: BLE001 - a malformed entry is reported as source 0
        return 0


class Session:
    """One real dataset object on one fresh label set; every method returns a DataStore trace event."""

    def __init__(self, cfg, lab, hw=(40, 48), channels=1, seed=0):
        self.cfg, self.lab = cfg, lab
        self.built = Built(lab, hw=hw, channels=channels, seed=seed)
        self.tmp = tempfile.mkdtemp(prefix="verif_c11_", dir=TMP_ROOT) if cfg["chunks"] else None
        self.ds, self.snap0, self.last = None, None, None

    def close(self):
        if self.tmp:
            shutil.rmtree(self.tmp, ignore_errors=True)
            self.tmp = None

    def build(self):
        ev = dict(op="build", raised="", len=0, src=[], pts=[], lab=0, mem=[])
        try:
            self.ds = make_dataset(self.cfg, self.built, self.tmp)
            n = len(self.ds)
            self.snap0 = store_snapshot(self.ds, self.cfg, self.tmp)
            entries = store_entries(self.snap0, self.cfg, max(n, len(self.snap0)))
            entries = [e for e in entries if e is not None]
            ev["len"] = int(n)
            ev["src"] = [frame_pos(self.built, e) for e in entries]
            ev["pts"] = [rows_of(e[PTS_KEY[self.cfg["cls"]]]) for e in entries]
        except Exception as e:  # noqa: BLE001 - judged by TLC (clause "raised")
            ev["raised"] = "%s: %s" % (type(e).__name__, str(e)[:200])
        ev["lab"] = self.built.labels_class()
        ev["mem"] = self.built.membership()
        return ev

    def get_raw(self, i0):
        return self.ds[i0]

    def observe_sample(self, s):
        cls = self.cfg["cls"]
        pts = rows_of(s[PTS_KEY[cls]])
        if cls == "centroid":
            zero = zero_channels(s["centroids_confidence_maps"])
        else:
            zero = zero_channels(s["confidence_maps"])
        pz = []
        if cls == "bottomup":
            z = zero_channels(s["part_affinity_fields"])
            pz = [1 if (z[2 * e] and z[2 * e + 1]) else 0 for e in range(len(z) // 2)]
        return pts, zero, pz

    def calls(self):
        """Event per helper of the functional API applied to the tensors of the sample returned last."""
        evs = []
        if self.last is None:
            return evs
        for name, thunk in sample_calls(self.cfg, self.last):
            ev = dict(op="call", f=name, raised="", cache=[], lab=0, mem=[])
            try:
                thunk()
            except Exception as e:  # noqa: BLE001
                ev["raised"] = "%s: %s" % (type(e).__name__, str(e)[:200])
            ev["cache"] = store_classes(store_snapshot(self.ds, self.cfg, self.tmp), self.snap0, self.cfg)
            ev["lab"] = self.built.labels_class()
            ev["mem"] = self.built.membership()
            evs.append(ev)
        # one more "call": ANOTHER dataset object of the same class is built on another label set (train, then val) and read.
        # It is a call like any other: nothing this dataset holds may change, later reads return what they returned before.
        ev = dict(op="call", f="another_dataset_object", raised="", cache=[], lab=0, mem=[])
        tmp2 = tempfile.mkdtemp(prefix="verif_c11b_", dir=TMP_ROOT) if self.cfg["chunks"] else None
        try:
            lab2 = [list(reversed(fr)) for fr in reversed(self.lab)]          # other frames first, other animals first
            other = Built(lab2, hw=(self.built.images[0].shape[0], self.built.images[0].shape[1]), channels=self.built.images[0].shape[2], seed=12345)
            ds2 = make_dataset(self.cfg, other, tmp2)
            for k in range(min(2, len(ds2))):
                ds2[k]
        except Exception as e:  # noqa: BLE001
            ev["raised"] = "%s: %s" % (type(e).__name__, str(e)[:200])
        finally:
            if tmp2:
                shutil.rmtree(tmp2, ignore_errors=True)
        ev["cache"] = store_classes(store_snapshot(self.ds, self.cfg, self.tmp), self.snap0, self.cfg)
        ev["lab"] = self.built.labels_class()
        ev["mem"] = self.built.membership()
        evs.append(ev)
        return evs

    def get(self, i0, ref):
        """__getitem__(i0) (0-based); ref = the sample of a fresh dataset for i0 (or None: no res class)."""
        ev = dict(op="get", i=i0 + 1, raised="", res=0, cache=[], pts=[], zero=[], pzero=[], lab=0, mem=[])
        try:
            s = self.ds[i0]
            self.last = s
            ev["pts"], ev["zero"], ev["pzero"] = self.observe_sample(s)
            if ref is not None:
                ev["res"] = 0 if same_value(s, ref) else 1
        except Exception as e:  # noqa: BLE001
            ev["raised"] = "%s: %s" % (type(e).__name__, str(e)[:200])
        ev["cache"] = store_classes(store_snapshot(self.ds, self.cfg, self.tmp), self.snap0, self.cfg)
        ev["lab"] = self.built.labels_class()
        ev["mem"] = self.built.membership()
        return ev


def sample_calls(cfg, s):
    """The functional API applied to the tensors of a returned sample `s` (the caller's tensors; in memory
    mode the frame-level classes hand out the cached tensors themselves): [(name, thunk)]."""
    from sleap_nn.data.instance_centroids import generate_centroids
    from sleap_nn.data.instance_cropping import make_centered_bboxes
    from sleap_nn.data.resizing import apply_resizer, apply_pad_to_stride
    from sleap_nn.data.augmentation import apply_geometric_augmentation, apply_intensity_augmentation
    from sleap_nn.data.confidence_maps import generate_confmaps, generate_multiconfmaps
    from sleap_nn.data.edge_maps import generate_pafs

    cls = cfg["cls"]
    a_ind = None if cfg["anchor"] == 0 else cfg["anchor"] - 1
    pts = s[PTS_KEY[cls]]
    img = s["instance_image"] if cls == "centered" else s["image"]
    hw = tuple(int(x) for x in img.shape[-2:])
    calls = [("generate_centroids", lambda: generate_centroids(pts, anchor_ind=a_ind)),
             ("generate_confmaps", lambda: generate_confmaps(pts, img_hw=hw, sigma=1.5, output_stride=2)),
             ("apply_resizer", lambda: apply_resizer(img, pts, scale=0.5)),
             ("apply_pad_to_stride", lambda: apply_pad_to_stride(img, max_stride=32)),
             ("apply_geometric_augmentation", lambda: apply_geometric_augmentation(img, pts, rotation=15.0, scale=(0.9, 1.1), affine_p=1.0)),
             ("apply_intensity_augmentation", lambda: apply_intensity_augmentation(img, pts, contrast_p=1.0, brightness=0.1, brightness_p=1.0))]
    if cls != "centered":
        ni = int(pts.shape[1])
        nn = int(pts.shape[2])
        calls.append(("generate_multiconfmaps", lambda: generate_multiconfmaps(pts, img_hw=hw, num_instances=ni, sigma=1.5, output_stride=2)))
        if nn >= 2:
            ei = torch.tensor([[e, e + 1] for e in range(nn - 1)], dtype=torch.int32)
            calls.append(("generate_pafs", lambda: generate_pafs(pts, img_hw=hw, sigma=4, output_stride=4, edge_inds=ei, flatten_channels=True)))
    if cls == "centroid":
        ctr = s["centroids"]
        calls.append(("make_centered_bboxes", lambda: make_centered_bboxes(ctr[0], 16, 16)))
        calls.append(("generate_multiconfmaps", lambda: generate_multiconfmaps(ctr, img_hw=hw, num_instances=int(ctr.shape[1]), sigma=1.5, output_stride=2, is_centroids=True)))
    if cls == "centered":
        ctr = s["centroid"]
        calls.append(("make_centered_bboxes", lambda: make_centered_bboxes(ctr, 16, 16)))
    return calls


def fresh_sample(cfg, lab, i0, **kw):
    """The sample a FRESH dataset (fresh labels) returns for index i0 as its first read."""
    s = Session(cfg, lab, **kw)
    try:
        s.ds = make_dataset(cfg, s.built, s.tmp)
        return deep_clone(s.ds[i0])
    finally:
        s.close()


def replay(cfg, lab, reads, refs=None, calls_after=None, **kw):
    """Build + reads (1-based indices) on a fresh real dataset -> list of events.  refs: {i0: sample}.
    calls_after = k: after the k-th read the functional API is applied to the returned sample's tensors
    (one "call" event per helper), then the reads continue."""
    refs = {} if refs is None else refs
    s = Session(cfg, lab, **kw)
    try:
        evs = [s.build()]
        if evs[0]["raised"]:
            return evs
        for k, i in enumerate(reads):
            if calls_after is not None and k == calls_after:
                evs += s.calls()
            i0 = i - 1
            if i0 not in refs:
                try:
                    refs[i0] = fresh_sample(cfg, lab, i0, **kw)
                except Exception:  # noqa: BLE001 - the read itself will raise too and be judged
                    refs[i0] = None
            evs.append(s.get(i0, refs[i0]))
            if evs[-1]["raised"]:
                break
        return evs
    finally:
        s.close()


def trace_cfg(cfg):
    ident = 1 if (cfg.get("scale", 1.0) == 1.0 and tuple(cfg.get("max_hw", (None, None))) == (None, None)) else 0
    return dict(cls=cfg["cls"], chunks=bool(cfg["chunks"]), anchor=int(cfg["anchor"]), uio=bool(cfg["uio"]), ident=ident)


def lab_json(lab):
    return [[dict(k=i["k"], p=[list(p) for p in i["p"]]) for i in fr] for fr in lab]


# ------------------------------------------------------------------------------- functional API
def _nan_count(v):
    x = _np(v)
    if x is None or x.dtype.kind not in "fc":
        return 0
    return int(np.isnan(x).sum())


def observe_call(fname, fn, named):
    """Call fn() (a closure over the caller's objects in `named`: name -> tensor / ndarray / list of
    arrays) and report, per caller object, whether it is unchanged afterwards."""
    before = {k: deep_clone(v) for k, v in named.items()}
    rec = dict(f=fname, raised="", args=[])
    try:
        fn()
    except Exception as e:  # noqa: BLE001
        rec["raised"] = "%s: %s" % (type(e).__name__, str(e)[:200])
    for k, v in named.items():
        flat_b = before[k] if not isinstance(before[k], list) else None
        rec["args"].append(dict(name=k, eq=1 if same_value(v, before[k]) else 0,
                                nb=_nan_count(flat_b) if flat_b is not None else 0,
                                na=_nan_count(v) if flat_b is not None else 0))
    return rec


def functional_battery(lab, anchor, seed=0, hw=(40, 48)):
    """Every helper of the functional API on the caller's tensors derived from one label set.
    Returns a list of call records (f, raised, args).  Points go in as plain tensors AND as views of a
    larger base tensor (the base is observed too)."""
    from sleap_nn.data.instance_centroids import generate_centroids, find_points_bbox_midpoint
    from sleap_nn.data.instance_cropping import generate_crops, make_centered_bboxes, find_instance_crop_size
    from sleap_nn.data.resizing import apply_sizematcher, apply_resizer, apply_pad_to_stride, resize_image
    from sleap_nn.data.normalization import apply_normalization, convert_to_grayscale, convert_to_rgb
    from sleap_nn.data.augmentation import apply_geometric_augmentation, apply_intensity_augmentation
    from sleap_nn.data.confidence_maps import generate_confmaps, generate_multiconfmaps
    from sleap_nn.data.edge_maps import generate_pafs
    from sleap_nn.data.providers import process_lf, get_max_instances

    nn = n_nodes_of(lab)
    a_ind = None if anchor == 0 else anchor - 1
    rng = np.random.RandomState(seed)
    out = []
    edge_inds = torch.tensor([[e, e + 1] for e in range(nn - 1)], dtype=torch.int32)
    for f, fr in enumerate(lab):
        if not fr:
            continue
        arr = np.array([[[p[0] / 4.0, p[1] / 4.0] if p[2] else [np.nan, np.nan] for p in i["p"]] for i in fr], dtype=np.float32)

        def fresh(view):
            """the caller's key-point tensor (1, I, N, 2) and what else must stay unchanged"""
            if view:
                base = torch.from_numpy(np.concatenate([arr[None], arr[None] + 1.0], 0).copy())
                return base[:1], {"points": base[:1], "points.base": base}
            t = torch.from_numpy(arr[None].copy())
            return t, {"points": t}

        img_u8 = torch.from_numpy(rng.randint(1, 255, size=(1, 1, hw[0], hw[1])).astype(np.uint8))
        img_f = img_u8.to(torch.float32) / 255.0
        for view in (False, True):
            tag = "(view)" if view else ""
            pts, named = fresh(view)
            out.append(observe_call("generate_centroids", lambda: generate_centroids(pts, anchor_ind=a_ind), named))
            pts, named = fresh(view)
            out.append(observe_call("find_points_bbox_midpoint", lambda: find_points_bbox_midpoint(pts), named))
            pts, named = fresh(view)
            out.append(observe_call("generate_multiconfmaps", lambda: generate_multiconfmaps(pts, img_hw=hw, num_instances=pts.shape[1], sigma=1.5, output_stride=2, is_centroids=False), named))
            pts, named = fresh(view)
            out.append(observe_call("generate_pafs", lambda: generate_pafs(pts, img_hw=hw, sigma=4, output_stride=4, edge_inds=edge_inds, flatten_channels=True), named))
            pts, named = fresh(view)
            inst = pts[:, 0]  # (1, N, 2)
            out.append(observe_call("generate_confmaps", lambda: generate_confmaps(inst, img_hw=hw, sigma=1.5, output_stride=2), named))
            pts, named = fresh(view)
            out.append(observe_call("generate_confmaps(rank4)", lambda: generate_confmaps(pts, img_hw=hw, sigma=1.5, output_stride=2), named))
            # centroids computed on a CLONE (so that this call's own purity is not masked), then used as arguments
            pts, named = fresh(view)
            ctr = generate_centroids(pts.clone(), anchor_ind=a_ind)  # (1, I, 2)
            named2 = dict(named, centroids=ctr)
            out.append(observe_call("generate_multiconfmaps(centroids)", lambda: generate_multiconfmaps(ctr, img_hw=hw, num_instances=ctr.shape[1], sigma=1.5, output_stride=2, is_centroids=True), named2))
            out.append(observe_call("make_centered_bboxes", lambda: make_centered_bboxes(ctr[0], 16, 16), named2))
            k = next((j for j in range(ctr.shape[1]) if bool(torch.isfinite(ctr[0, j]).all())), None)
            if k is not None:
                im = img_f.clone()
                named3 = dict(named2, image=im)
                out.append(observe_call("generate_crops", lambda: generate_crops(im, pts[0, k], ctr[0, k], (22, 22)), named3))
            for scale in (1.0, 0.5, 2.0):
                pts, named = fresh(view)
                im = img_f.clone()
                out.append(observe_call("apply_resizer(%s)" % scale, lambda: apply_resizer(im, pts, scale=scale), dict(named, image=im)))
            pts, named = fresh(view)
            im = img_f.clone()
            out.append(observe_call("apply_geometric_augmentation", lambda: apply_geometric_augmentation(
                im, pts, rotation=15.0, scale=(0.9, 1.1), translate_width=0.02, translate_height=0.02, affine_p=1.0,
                erase_p=1.0, mixup_lambda=None, mixup_p=1.0), dict(named, image=im)))
            pts, named = fresh(view)
            im = img_f.clone()
            out.append(observe_call("apply_intensity_augmentation", lambda: apply_intensity_augmentation(
                im, pts, uniform_noise_p=1.0, gaussian_noise_p=1.0, contrast_p=1.0, brightness=0.1, brightness_p=1.0), dict(named, image=im)))
            pts, named = fresh(view)
            im = img_f.clone()
            inst = pts[:, 0]
            out.append(observe_call("apply_geometric_augmentation(crop)", lambda: apply_geometric_augmentation(
                im, inst, rotation=180.0, scale=(0.9, 1.1), translate_width=0.0, translate_height=0.0, affine_p=1.0), dict(named, image=im)))
            if view:
                continue
            # image-only helpers (once per frame)
            for nm, im0 in (("uint8", img_u8), ("float", img_f)):
                im = im0.clone()
                out.append(observe_call("apply_normalization(%s)" % nm, lambda: apply_normalization(im), dict(image=im)))
            im = img_f.clone()
            out.append(observe_call("convert_to_rgb", lambda: convert_to_rgb(im), dict(image=im)))
            im3 = img_f.repeat(1, 3, 1, 1).clone()
            out.append(observe_call("convert_to_grayscale", lambda: convert_to_grayscale(im3), dict(image=im3)))
            for mh, mw in ((None, None), (hw[0] + 9, hw[1] + 5), (hw[0] * 2, hw[1] * 2)):
                im = img_f.clone()
                out.append(observe_call("apply_sizematcher", lambda: apply_sizematcher(im, max_height=mh, max_width=mw), dict(image=im)))
            for ms in (1, 16, 32):
                im = img_f.clone()
                out.append(observe_call("apply_pad_to_stride(%d)" % ms, lambda: apply_pad_to_stride(im, max_stride=ms), dict(image=im)))
            im = img_f.clone()
            out.append(observe_call("resize_image", lambda: resize_image(im, 0.5), dict(image=im)))
    # label-object helpers: the label arrays are the argument
    b = Built(lab, hw=hw, seed=seed)
    for kwargs in (dict(padding=0, maximum_stride=2, input_scaling=1.0), dict(padding=8, maximum_stride=16, input_scaling=0.5, min_crop_size=30)):
        rec = observe_call("find_instance_crop_size", lambda: find_instance_crop_size(b.labels, **kwargs), {"labels": b.label_arrays()})
        rec["args"] = [dict(name="labels", eq=1 - b.labels_class(), nb=0, na=0)]
        out.append(rec)
    for uio in (True, False):
        b = Built(lab, hw=hw, seed=seed)
        mi = get_max_instances(b.labels)
        for fi, lf in enumerate(b.lfs):
            if not any(not i.is_empty for i in (lf.user_instances if (uio and lf.user_instances) else lf.instances)):
                continue  # process_lf is only called for frames that passed the non-empty filter
            rec = observe_call("process_lf", lambda: process_lf(lf, video_idx=0, max_instances=mi, user_instances_only=uio), {"labels": b.label_arrays()})
            rec["args"] = [dict(name="labels", eq=1 - b.labels_class(), nb=0, na=0)]
            rec["filtered_in_place"] = int(b.membership()[fi] != list(range(1, len(b.orig[fi]) + 1)))
            out.append(rec)
    return out


# ------------------------------------------------------------------------------- TLC export ----
def parse_export(r):
    """LAB / HIST lines PrintT'ed by MC_DataStore!Export -> ({cfgtuple: (vis, n)}, {cfgtuple: [reads]})."""
    from harness.graph import parse_value

    labs, hists = {}, {}
    for txt in r.printed("LAB"):
        v = parse_value("<<" + txt + ">>")
        labs[tuple(v[0])] = (v[1], v[2])
    for txt in r.printed("HIST"):
        v = parse_value("<<" + txt + ">>")
        hists.setdefault(tuple(v[0]), []).append(list(v[1]))
    return labs, hists


def parse_grid(r):
    """LAB lines of a Grid > 0 run -> [(cfg, vis, n_samples)] in TLC's order."""
    from harness.graph import parse_value

    out = []
    for txt in r.printed("LAB"):
        v = parse_value("<<" + txt + ">>")
        out.append((cfg_of_tuple(v[0]), v[1], int(v[2])))
    return out


def cfg_of_tuple(t):
    return dict(cls=t[0], chunks=bool(t[1]), anchor=int(t[2]), uio=bool(t[3]), fam=int(t[4]))
