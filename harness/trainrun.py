"""C19 harness: build training configurations, run the real ModelTrainer in a subprocess under an
audit hook that records the disk state at every file-write boundary (each one a possible crash point)."""
import json
import os
import subprocess
import sys
import tempfile
import shutil

ROOT = os.path.dirname(os.path.dirname(os.path.abspath(__file__)))
ASSET = "tests/assets/minimal_instance.pkg.slp"
MODELS = ("single_instance", "centered_instance", "centroid", "bottomup")
FWS = ("torch_dataset", "torch_dataset_np_chunks")


def all_configs():
    """64 configurations of the property's grid + 32 in-memory runs under (simulated) memory pressure, where the trainer
    falls back to npz chunks on its own."""
    base = [dict(model=m, fw=f, wandb=w, ckpt=c, structured=s, lowmem=False)
            for m in MODELS for f in FWS for w in (False, True) for c in (False, True) for s in (False, True)]
    low = [dict(c, lowmem=True) for c in base if c["fw"] == "torch_dataset"]
    return base + low


def head_cfg(model, default=False):
    if default:
        # the schema / builder-preset defaults (what get_head_configs("<model>") produces): output stride 1, loss weights unset
        base = {"single_instance": {"confmaps": {"part_names": None, "sigma": 5.0, "output_stride": 1}},
                "centered_instance": {"confmaps": {"part_names": None, "anchor_part": None, "sigma": 5.0, "output_stride": 1}},
                "centroid": {"confmaps": {"anchor_part": None, "sigma": 5.0, "output_stride": 1}},
                "bottomup": {"confmaps": {"part_names": None, "sigma": 5.0, "output_stride": 1, "loss_weight": None},
                             "pafs": {"edges": None, "sigma": 15.0, "output_stride": 1, "loss_weight": None}}}
        return base[model]
    if model == "single_instance":
        return {"confmaps": {"part_names": None, "sigma": 1.5, "output_stride": 2}}
    if model == "centered_instance":
        return {"confmaps": {"part_names": None, "anchor_part": None, "sigma": 1.5, "output_stride": 2}}
    if model == "centroid":
        return {"confmaps": {"anchor_part": None, "sigma": 1.5, "output_stride": 2}}
    return {"confmaps": {"part_names": None, "sigma": 1.5, "output_stride": 2, "loss_weight": 1.0},
            "pafs": {"edges": None, "sigma": 4, "output_stride": 4, "loss_weight": 1.0}}


def plain_config(job, repo, out_dir, chunk_dir, key):
    heads = {m: None for m in MODELS}
    dflt = job.get("heads") == "default"
    heads[job["model"]] = head_cfg(job["model"], dflt)
    slp = os.path.join(repo, ASSET)
    return {
        "data_config": {
            "provider": "LabelsReader", "train_labels_path": slp, "val_labels_path": slp, "test_file_path": None,
            "user_instances_only": True, "data_pipeline_fw": job["fw"], "np_chunks_path": chunk_dir,
            "litdata_chunks_path": None, "use_existing_chunks": False, "delete_chunks_after_training": True, "chunk_size": 100,
            "preprocessing": {"is_rgb": False, "max_width": None, "max_height": None, "scale": 1.0,
                              "crop_hw": [160, 160], "min_crop_size": None},
            "use_augmentations_train": False, "augmentation_config": None,
        },
        "model_config": {
            "init_weights": "default", "pre_trained_weights": None, "pretrained_backbone_weights": None, "pretrained_head_weights": None,
            "backbone_config": {"unet": {"in_channels": 1, "kernel_size": 3, "filters": 8, "filters_rate": 1.5, "max_stride": 8,
                                         "convs_per_block": 2, "stacks": 1, "stem_stride": None, "middle_block": True,
                                         "up_interpolate": True, "output_stride": (1 if dflt else 2)},
                                "convnext": None, "swint": None},
            "head_configs": heads,
        },
        "trainer_config": {
            # feed "derived": steps_per_epoch left unset (schema default) and a batch larger than the label set - the trainer
            # derives the epoch length itself (seed C19_r8)
            "train_data_loader": {"batch_size": (4 if job.get("feed") == "derived" else 1), "shuffle": False, "num_workers": 0},
            "val_data_loader": {"batch_size": (4 if job.get("feed") == "derived" else 1), "num_workers": 0},
            "model_ckpt": {"save_top_k": 1, "save_last": True},
            # the schema default of the section is null (no early stopping), like lr_scheduler
            "early_stopping": (None if job.get("es") == "null" else {"stop_training_on_plateau": False, "min_delta": 1e-08, "patience": 20}),
            "trainer_devices": 1, "trainer_accelerator": "cpu", "enable_progress_bar": False, "steps_per_epoch": (None if job.get("feed") == "derived" else 1),
            "max_epochs": 1, "seed": (None if job.get("seed") == "null" else 1000), "use_wandb": job["wandb"], "save_ckpt": job["ckpt"], "save_ckpt_path": out_dir,
            "resume_ckpt_path": None,
            "wandb": {"entity": None, "project": "verif", "name": "run", "wandb_mode": "offline", "api_key": key,
                      "prv_runid": None, "group": None},
            "optimizer_name": "Adam", "optimizer": {"lr": 0.0001, "amsgrad": False},
            "lr_scheduler": ({"reduce_lr_on_plateau": {"threshold": 1e-07, "threshold_mode": "rel", "cooldown": 3, "patience": 5, "factor": 0.5, "min_lr": 1e-08}, "step_lr": None}
                             if job.get("sched") == "reduce_lr_on_plateau" else
                             {"step_lr": {"step_size": 10, "gamma": 0.1}, "reduce_lr_on_plateau": None} if job.get("sched") == "step_lr" else None),
        },
    }


def run_jobs(jobs, repo, seed, workers=8, timeout=600):
    """Run each job in its own subprocess (parallel).  Returns list of observation dicts (same order)."""
    from concurrent.futures import ThreadPoolExecutor

    base = tempfile.mkdtemp(prefix="verif_c19_")
    try:
        def one(k_job):
            k, job = k_job
            d = os.path.join(base, "job%d" % k)
            os.makedirs(d)
            jf, of = os.path.join(d, "job.json"), os.path.join(d, "obs.json")
            with open(jf, "w") as f:
                json.dump(dict(job=job, repo=repo, seed=seed * 1000 + k, work=d), f)
            env = dict(os.environ, VERIF_REPO=repo, WANDB_MODE="offline", WANDB_SILENT="true", WANDB_DIR=d,
                       WANDB_CACHE_DIR=os.path.join(d, "wc"), WANDB_CONFIG_DIR=os.path.join(d, "wcfg"),
                       WANDB_DATA_DIR=os.path.join(d, "wd"), TMPDIR=d, VERIF_TORCH_THREADS="1", PYTHONHASHSEED="0", HOME=d)
            try:
                p = subprocess.run([sys.executable, os.path.join(ROOT, "harness", "trainrun_worker.py"), jf, of], env=env,
                                   stdout=subprocess.PIPE, stderr=subprocess.STDOUT, text=True, timeout=timeout, cwd=d)
                out = p.stdout
            except subprocess.TimeoutExpired:
                return dict(job=job, machinery="timeout")
            if not os.path.exists(of):
                return dict(job=job, machinery="worker died: " + out[-1500:])
            with open(of) as f:
                obs = json.load(f)
            obs["log_tail"] = out[-600:]
            return obs

        with ThreadPoolExecutor(max_workers=workers) as ex:
            return list(ex.map(one, list(enumerate(jobs))))
    finally:
        shutil.rmtree(base, ignore_errors=True)
