"""Regenerate the table of DESIGN.md 9.5 from seeded/*/meta.json (prints markdown on stdout;
`python harness/seeded_table.py --write` replaces the table in DESIGN.md in place)."""
import json
import os
import re
import sys

ROOT = os.path.dirname(os.path.dirname(os.path.abspath(__file__)))


def rows():
    out = []
    for d in sorted(os.listdir(os.path.join(ROOT, "seeded"))):
        mp = os.path.join(ROOT, "seeded", d, "meta.json")
        if not os.path.exists(mp):
            continue
        m = json.load(open(mp))
        needs = re.sub(r"\s+", " ", m.get("needs", "")).replace("|", "/")[:200]
        caught = re.sub(r"\s+", " ", m.get("caught_by", "")).replace("|", "/")
        out.append("| %s | %s | %s | %s |" % (d, m["property"], needs, caught))
    return out


def table():
    return "\n".join(["| seed | property | needs | caught by |", "|---|---|---|---|"] + rows()) + "\n"


if __name__ == "__main__":
    t = table()
    if "--write" in sys.argv:
        p = os.path.join(ROOT, "DESIGN.md")
        s = open(p).read()
        i = s.index("| seed | property | needs | caught by |")
        j = i
        lines = s[i:].split("\n")
        n = 0
        for ln in lines:
            if not ln.startswith("|"):
                break
            n += len(ln) + 1
        open(p, "w").write(s[:i] + t + s[i + n:])
        print("rows:", len(rows()))
    else:
        sys.stdout.write(t)
