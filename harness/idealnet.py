"""Ideal-network stubs and frame builders for the inference-plane checks (C02, C03, C12).

Frames are coordinate-coded float RGB images (harness/coordimage.py) with the frame id added to the G
channel as an offset of FRAME_STEP rows, so a stub can tell which frame (and hence which ground-truth
animals) a tensor shows and can MEASURE the affine map orig -> input that the pipeline actually applied
to the image content.  The stub then renders the ideal output *for the image it is actually given*:
Gaussian confidence maps with their maximum at the grid cell nearest to the transformed keypoint, and
unit-vector PAF bands along the transformed edges.  It knows nothing about the pipeline's parameters
except its own output stride(s)."""
import math

import numpy as np
import torch

from harness.coordimage import fit_content

UNIT = 1024.0
FRAME_STEP = 128  # rows of G offset per frame id (images are at most 100 px high)


def frame_image(h, w, fid):
    img = np.empty((h, w, 3), dtype=np.float32)
    img[..., 0] = (np.arange(w, dtype=np.float64) / UNIT)[None, :]
    img[..., 1] = ((np.arange(h, dtype=np.float64) + FRAME_STEP * fid) / UNIT)[:, None]
    img[..., 2] = 1.0
    return img


def decode(x, frames):
    """x: (3, H, W) tensor.  Returns (fid, Fit) - Fit.M, Fit.t map original (x, y) to input pixels."""
    a = x.detach().cpu().numpy().astype(np.float64)
    mask = a[2] > 0.999
    if mask.sum() < 12:
        return None, None
    fid = int(math.floor(np.median(a[1][mask]) * UNIT / FRAME_STEP + 1e-6))
    a = a.copy()
    a[1] = a[1] - (FRAME_STEP * fid) / UNIT
    hw = frames[fid]["hw"] if 0 <= fid < len(frames) else None
    f = fit_content(a, orig_hw=hw, unit=UNIT)
    return fid, f


def gaussian_maps(points_in, H, W, stride, sigma):
    """points_in: (K, 2) input-pixel positions (NaN = absent) -> (K, H/stride, W/stride) maps."""
    gh, gw = H // stride, W // stride
    gx = torch.arange(gw, dtype=torch.float64) * stride
    gy = torch.arange(gh, dtype=torch.float64) * stride
    out = torch.zeros((len(points_in), gh, gw), dtype=torch.float32)
    for k, (px, py) in enumerate(points_in):
        if not (math.isfinite(px) and math.isfinite(py)):
            continue
        # an ideal map has ONE maximum: break exact half-cell ties by a 0.002 px nudge (far below the 0.05 px eps)
        d2 = (gx[None, :] - (px + 0.002)) ** 2 + (gy[:, None] - (py + 0.0013)) ** 2
        out[k] = torch.exp(-d2 / (2 * sigma * sigma)).to(torch.float32)
    return out


def centroid_of(pts, anchor=None):
    pts = np.asarray(pts, dtype=np.float64)
    if anchor is not None and np.all(np.isfinite(pts[anchor])):
        return pts[anchor]
    vis = pts[np.all(np.isfinite(pts), axis=1)]
    if len(vis) == 0:
        return np.array([np.nan, np.nan])
    return (vis.min(axis=0) + vis.max(axis=0)) / 2.0


class IdealNet(torch.nn.Module):
    """kind: 'single' | 'centroid' | 'centered' | 'bottomup'.
    frames: list of dict(hw=(h, w), animals=[(n_nodes, 2) arrays in ORIGINAL coordinates]).
    Records every call in self.calls (fid, fitted scale, residual) - measurements only."""

    def __init__(self, kind, frames, stride, n_nodes, edges=None, paf_stride=None, anchor=None, sigma_cells=1.5, crop=None):
        super().__init__()
        self.kind, self.frames, self.stride, self.n_nodes = kind, frames, stride, n_nodes
        self.edges, self.paf_stride, self.anchor, self.sigma_cells = edges or [], paf_stride, anchor, sigma_cells
        self.crop = crop  # 'centered': the crop size the network was trained on (its own property)
        self.calls = []

    def to_input(self, f, pts):
        pts = np.asarray(pts, dtype=np.float64)
        out = np.full_like(pts, np.nan)
        ok = np.all(np.isfinite(pts), axis=-1)
        out[ok] = pts[ok] @ f.M.T + f.t
        return out

    def forward(self, x):
        if x.dim() == 5:
            x = x.squeeze(1)
        B, C, H, W = x.shape
        s = self.stride
        outs, pafs = [], []
        for b in range(B):
            fid, f = decode(x[b], self.frames)
            if f is None or not f.ok or not (0 <= fid < len(self.frames)):
                self.calls.append(dict(fid=fid, ok=False))
                nch = 1 if self.kind == "centroid" else self.n_nodes
                outs.append(torch.zeros((nch, H // s, W // s)))
                if self.kind == "bottomup":
                    pafs.append(torch.zeros((2 * len(self.edges), H // self.paf_stride, W // self.paf_stride)))
                continue
            animals = [self.to_input(f, a) for a in self.frames[fid]["animals"]]
            self.calls.append(dict(fid=fid, ok=True, scale=f.scale, res=f.res_out, hw=(H, W), box=f.box))
            sigma = self.sigma_cells * s
            if self.kind == "single":
                outs.append(gaussian_maps(animals[0] if animals else np.full((self.n_nodes, 2), np.nan), H, W, s, sigma))
            elif self.kind == "centroid":
                cm = torch.zeros((1, H // s, W // s))
                for a_in, a_orig in zip(animals, self.frames[fid]["animals"]):
                    c = self.to_input(f, centroid_of(a_orig, self.anchor)[None])[0]
                    cm = torch.maximum(cm, gaussian_maps([c], H, W, s, sigma))
                outs.append(cm)
            elif self.kind == "centered":
                ch_, cw_ = (self.crop if isinstance(self.crop, (tuple, list)) else (self.crop, self.crop)) if self.crop else (min(H, W), min(H, W))
                centre = np.array([(cw_ - 1) / 2.0, (ch_ - 1) / 2.0])
                best, bd = None, None
                for a_in, a_orig in zip(animals, self.frames[fid]["animals"]):
                    c = self.to_input(f, centroid_of(a_orig, self.anchor)[None])[0]
                    if not np.all(np.isfinite(c)):
                        continue
                    d = float(np.abs(c - centre).max())
                    if bd is None or d < bd:
                        best, bd = a_in, d
                outs.append(gaussian_maps(best if best is not None else np.full((self.n_nodes, 2), np.nan), H, W, s, sigma))
            else:  # bottomup
                cm = torch.zeros((self.n_nodes, H // s, W // s))
                for a_in in animals:
                    cm = torch.maximum(cm, gaussian_maps(a_in, H, W, s, sigma))
                outs.append(cm)
                ps = self.paf_stride
                gh, gw = H // ps, W // ps
                gx = (torch.arange(gw, dtype=torch.float64) * ps)[None, :].expand(gh, gw)
                gy = (torch.arange(gh, dtype=torch.float64) * ps)[:, None].expand(gh, gw)
                pf = torch.zeros((2 * len(self.edges), gh, gw), dtype=torch.float32)
                # band wide enough to contain lines drawn between peaks quantised to the confidence-map grid
                half = 0.75 * ps + 1.0 + 0.75 * s
                for a_in in animals:
                    for e, (sn, dn) in enumerate(self.edges):
                        p0, p1 = a_in[sn], a_in[dn]
                        if not (np.all(np.isfinite(p0)) and np.all(np.isfinite(p1))):
                            continue
                        v = p1 - p0
                        L = float(np.hypot(*v))
                        if L < 1e-6:
                            continue
                        u = v / L
                        tpar = ((gx - p0[0]) * u[0] + (gy - p0[1]) * u[1]).clamp(0, L)
                        dx = gx - (p0[0] + tpar * u[0])
                        dy = gy - (p0[1] + tpar * u[1])
                        band = ((dx * dx + dy * dy) <= half * half).to(torch.float32)
                        pf[2 * e] += band * float(u[0])
                        pf[2 * e + 1] += band * float(u[1])
                pafs.append(pf)
        cms = torch.stack(outs)
        if self.kind == "bottomup":
            return {"MultiInstanceConfmapsHead": cms, "PartAffinityFieldsHead": torch.stack(pafs)}
        return cms
