"""Run a check against a scratch copy of the tree with a patch applied (mutation self-test).
usage: python harness/mutant.py <patch.diff> <prop> [--tier quick]   -> prints check output, exit code of check
The copy lives under mkdtemp (outside /repo and /verif) and is removed afterwards."""
import os
import shutil
import subprocess
import sys
import tempfile

ROOT = os.path.dirname(os.path.dirname(os.path.abspath(__file__)))


def run_on_mutant(patch, prop, tier="quick", quiet=False):
    tmp = tempfile.mkdtemp(prefix="verif_mut_")
    try:
        dst = os.path.join(tmp, "repo")
        subprocess.run(["rsync", "-a", "--exclude", ".git", "--exclude", "__pycache__", "--exclude", "docs", "/repo/", dst + "/"], check=True)
        subprocess.run(["git", "init", "-q"], cwd=dst, check=True)
        p = subprocess.run(["git", "apply", "--whitespace=nowarn", os.path.abspath(patch)], cwd=dst, capture_output=True, text=True)
        if p.returncode != 0:
            print("PATCH DOES NOT APPLY:", p.stderr)
            return 3, p.stderr
        env = dict(os.environ, VERIF_REPO=dst, VERIF_NO_EVIDENCE="1", VERIF_REPLAY_DIR=os.path.join(tmp, "replays"))
        p = subprocess.run([os.path.join(ROOT, "check"), prop, "--tier", tier], env=env, capture_output=True, text=True, cwd=ROOT)
        if not quiet:
            print(p.stdout[-4000:])
            print(p.stderr[:1500], file=sys.stderr)
        return p.returncode, p.stdout
    finally:
        shutil.rmtree(tmp, ignore_errors=True)


if __name__ == "__main__":
    tier = "quick"
    if "--tier" in sys.argv:
        tier = sys.argv[sys.argv.index("--tier") + 1]
    rc, _ = run_on_mutant(sys.argv[1], sys.argv[2], tier)
    sys.exit(rc)
