"""The three user-selectable data frameworks of sleap-nn, run side by side on the same labels (C18).

    InMemory     data_pipeline_fw = "torch_dataset"            custom_datasets.*Dataset(np_chunks=False)
    NpChunks     data_pipeline_fw = "torch_dataset_np_chunks"  custom_datasets.*Dataset(np_chunks=True, np_chunks_path=<mkdtemp>)
    ChunkStream  data_pipeline_fw = "litdata"                  get_data_chunks.*_data_chunks(lf) -> dict(s)
                                                               -> streaming_datasets.*StreamingDataset.__getitem__

For ChunkStream, training/get_bin_files.py hands the chunk function to `litdata.optimize()` (worker
processes, .bin files) and `*StreamingDataset.__getitem__` starts with `ex = super().__getitem__(index)`.
Here `litdata.StreamingDataset.__init__ / __getitem__ / __len__` are substituted (context manager, restored in
a finally) so that `super().__getitem__(i)` returns the i-th dict the chunk function produced, after it went
through litdata's REAL per-field serializers in memory (PIL image -> bytes -> PIL image, tensor -> bytes ->
tensor, int -> bytes -> int): no optimize() subprocesses, no binary chunk files, no cache directory.

Nothing here decides a verdict: the functions run the real code and return its sample dicts; `project_*`
turn them into small integers / pairwise allclose flags for TLC (DESIGN.md 1.3).
"""
import contextlib
import copy
import shutil
import tempfile

import numpy as np

MODELS = ("single_instance", "centroid", "centered_instance", "bottomup")
FRAMEWORKS = ("InMemory", "NpChunks", "ChunkStream")
IMG_KEY = {"single_instance": "image", "centroid": "image", "centered_instance": "instance_image", "bottomup": "image"}
# the keypoints / centroids the targets are drawn from, and the targets, per model type
KP_KEY = {"single_instance": "instances", "centroid": "centroids", "centered_instance": "instance", "bottomup": "instances"}
TARGET_KEYS = {"single_instance": ("confidence_maps",), "centroid": ("centroids_confidence_maps",),
               "centered_instance": ("confidence_maps",), "bottomup": ("confidence_maps", "part_affinity_fields")}
IMG_TOL = 1.0 / 255 + 1e-6       # 8-bit quantisation of the cached image (ToPILImage truncates: error in [0, 1/255))
TGT_TOL = 1e-4                   # targets are drawn from float32 keypoints that are never quantised: float noise only


# ------------------------------------------------------------------------------------------ configuration
def data_config(is_rgb, max_hw, scale, crop_hw=None, user_only=True):
    from omegaconf import OmegaConf

    return OmegaConf.create(dict(
        user_instances_only=bool(user_only),
        preprocessing=dict(is_rgb=bool(is_rgb), max_height=max_hw[0], max_width=max_hw[1], scale=float(scale),
                           crop_hw=list(crop_hw) if crop_hw else None),
        use_augmentations_train=False, augmentation_config=None))


def head_config(sigma, output_stride, anchor_part=None, part_names=None):
    from omegaconf import OmegaConf

    return OmegaConf.create(dict(sigma=float(sigma), output_stride=int(output_stride), anchor_part=anchor_part,
                                 part_names=part_names))


# ------------------------------------------------------------------------------------------ litdata substitute
def _roundtrip_field(v, serializers):
    """One leaf of the sample dict through litdata's own serializer for that type (as BinaryWriter picks it)."""
    for name, ser in serializers.items():
        if ser.can_serialize(v):
            data, tag = ser.serialize(v)
            out = serializers[(tag or name).split(":")[0]]
            if tag and hasattr(out, "setup"):
                out.setup(tag)
            return out.deserialize(data)
    raise TypeError("litdata has no serializer for %r" % type(v))


def litdata_roundtrip(sample):
    from litdata.streaming.serializers import _get_serializers

    sers = _get_serializers(None)
    return {k: _roundtrip_field(v, sers) for k, v in sample.items()}


def fallback_roundtrip(sample):
    return {k: (v.copy() if hasattr(v, "copy") and not isinstance(v, dict) else copy.deepcopy(v)) for k, v in sample.items()}


_ROUNDTRIP = None


def chunk_roundtrip():
    """litdata's serializers if they work on a probe dict in this litdata version, else a deep copy (recorded)."""
    global _ROUNDTRIP
    if _ROUNDTRIP is None:
        import torch
        from PIL import Image

        probe = dict(image=Image.fromarray(np.arange(12, dtype=np.uint8).reshape(3, 4)), t=torch.arange(6.0).view(1, 3, 2),
                     i=torch.tensor(3, dtype=torch.int32), n=2)
        try:
            out = litdata_roundtrip(probe)
            ok = (np.array_equal(np.asarray(out["image"]), np.asarray(probe["image"])) and out["image"].mode == "L"
                  and torch.equal(out["t"], probe["t"]) and out["t"].dtype == probe["t"].dtype
                  and torch.equal(out["i"], probe["i"]) and out["n"] == 2 and isinstance(out["n"], int))
        except Exception:
            ok = False
        _ROUNDTRIP = ("litdata serializers", litdata_roundtrip) if ok else ("deep copy", fallback_roundtrip)
    return _ROUNDTRIP


@contextlib.contextmanager
def litdata_substituted():
    """Within the block, litdata.StreamingDataset(items=[...]) is an in-memory list of chunk dicts."""
    import litdata as ld

    base = ld.StreamingDataset
    saved = {k: base.__dict__.get(k) for k in ("__init__", "__getitem__", "__len__")}
    _, rt = chunk_roundtrip()

    def __init__(self, *a, items=None, **k):
        self._verif_items = list(items)

    def __getitem__(self, index):
        return rt(self._verif_items[index])

    def __len__(self):
        return len(self._verif_items)

    try:
        base.__init__, base.__getitem__, base.__len__ = __init__, __getitem__, __len__
        yield
    finally:
        for k, v in saved.items():
            if v is None:
                delattr(base, k)
            else:
                setattr(base, k, v)


# ------------------------------------------------------------------------------------------ the three paths
def _dataset(model, labels, c, np_chunks, path, use_existing_chunks=False):
    from sleap_nn.data import custom_datasets as cd

    dc = data_config(c["is_rgb"], c["max_hw"], c["scale"], c.get("crop_hw"), c.get("user_only", True))
    common = dict(labels=labels, data_config=dc, max_stride=c["max_stride"], scale=c["scale"], apply_aug=False,
                  max_hw=tuple(c["max_hw"]), np_chunks=np_chunks, np_chunks_path=path)
    if use_existing_chunks:
        common["use_existing_chunks"] = True
    conf = head_config(c["sigma"], c["output_stride"], c.get("anchor"))
    if model == "single_instance":
        return cd.SingleInstanceDataset(confmap_head_config=conf, **common)
    if model == "centroid":
        return cd.CentroidDataset(confmap_head_config=conf, **common)
    if model == "centered_instance":
        return cd.CenteredInstanceDataset(confmap_head_config=conf, crop_hw=tuple(c["crop_hw"]), **common)
    if model == "bottomup":
        return cd.BottomUpDataset(confmap_head_config=conf, pafs_head_config=head_config(c["paf_sigma"], c["paf_stride"]), **common)
    raise ValueError(model)


def run_inmemory(model, labels, c):
    path = tempfile.mkdtemp(prefix="verif_c18_mem_")     # BaseDataset creates np_chunks_path even when unused ('.' by default)
    try:
        ds = _dataset(model, labels, c, False, path)
        # every index is read twice (second epoch) and the SECOND read is the one compared across frameworks: a framework
        # whose samples change on re-reading (e.g. through its in-memory cache) no longer agrees with the others (seed C18_r6)
        _first = [ds[i] for i in range(len(ds))]
        return [ds[i] for i in range(len(ds))]
    finally:
        shutil.rmtree(path, ignore_errors=True)


def run_npchunks(model, labels, c):
    path = tempfile.mkdtemp(prefix="verif_c18_npz_")
    try:
        ds = _dataset(model, labels, c, True, path)
        # every index is read twice (second epoch) and the SECOND read is the one compared across frameworks: a framework
        # whose samples change on re-reading (e.g. through its in-memory cache) no longer agrees with the others (seed C18_r6)
        _first = [ds[i] for i in range(len(ds))]
        fresh = c["reuse_chunks"]() if c.get("reuse_chunks") else None
        if fresh is not None:
            # the documented second use of the framework: a later run (here: a second dataset object over fresh labels)
            # reads the chunk files the first one wrote (use_existing_chunks=True); its samples are the ones compared
            ds2 = _dataset(model, fresh, c, True, path, use_existing_chunks=True)
            if len(ds2) != len(ds):
                raise AssertionError("dataset reusing the chunks has %d samples, the one that wrote them %d" % (len(ds2), len(ds)))
            return [ds2[i] for i in range(len(ds2))]
        return [ds[i] for i in range(len(ds))]
    finally:
        shutil.rmtree(path, ignore_errors=True)


def make_chunks(model, labels, c):
    """What training/get_bin_files.py feeds to litdata.optimize(): fn over [(lf, video_idx) for lf in labels]."""
    from sleap_nn.data import get_data_chunks as gc
    from sleap_nn.data.providers import get_max_instances

    uo = bool(c.get("user_only", True))
    dc = data_config(c["is_rgb"], c["max_hw"], c["scale"], c.get("crop_hw"), uo)
    max_instances = get_max_instances(labels)
    items = []
    # the list of inputs training/get_bin_files.py hands to litdata.optimize(): every labelled frame - or, when the
    # tree provides it (fixes/C18_chunk_inputs_skip_frames_without_instances.diff), get_data_chunks.get_chunk_inputs
    inputs = (gc.get_chunk_inputs(labels, uo) if hasattr(gc, "get_chunk_inputs")
              else [(lf, labels.videos.index(lf.video)) for lf in labels])
    for x in inputs:
        kw = dict(data_config=dc, user_instances_only=uo, max_hw=tuple(c["max_hw"]), scale=c["scale"])
        if model == "single_instance":
            items.append(gc.single_instance_data_chunks(x, **kw))
        elif model == "centroid":
            items.append(gc.centroid_data_chunks(x, max_instances=max_instances, anchor_ind=c.get("anchor"), **kw))
        elif model == "bottomup":
            items.append(gc.bottomup_data_chunks(x, max_instances=max_instances, **kw))
        elif model == "centered_instance":
            items.extend(gc.centered_instance_data_chunks(x, max_instances=max_instances, crop_size=tuple(c["crop_hw"]),
                                                          anchor_ind=c.get("anchor"), **kw))
        else:
            raise ValueError(model)
    return items


def run_chunkstream(model, labels, c):
    from sleap_nn.data import streaming_datasets as sd

    items = make_chunks(model, labels, c)
    conf = head_config(c["sigma"], c["output_stride"], c.get("anchor"))
    with litdata_substituted():
        if model == "single_instance":
            ds = sd.SingleInstanceStreamingDataset(confmap_head=conf, max_stride=c["max_stride"], items=items)
        elif model == "centroid":
            ds = sd.CentroidStreamingDataset(confmap_head=conf, max_stride=c["max_stride"], items=items)
        elif model == "centered_instance":
            ds = sd.CenteredInstanceStreamingDataset(confmap_head=conf, crop_hw=tuple(c["crop_hw"]), max_stride=c["max_stride"],
                                                     input_scale=c["scale"], items=items)
        else:
            ds = sd.BottomUpStreamingDataset(confmap_head=conf, pafs_head=head_config(c["paf_sigma"], c["paf_stride"]),
                                             edge_inds=labels.skeletons[0].edge_inds, max_stride=c["max_stride"], items=items)
        # every index is read twice (second epoch) and the SECOND read is the one compared across frameworks: a framework
        # whose samples change on re-reading (e.g. through its in-memory cache) no longer agrees with the others (seed C18_r6)
        _first = [ds[i] for i in range(len(ds))]
        return [ds[i] for i in range(len(ds))]


RUNNERS = dict(InMemory=run_inmemory, NpChunks=run_npchunks, ChunkStream=run_chunkstream)


# ------------------------------------------------------------------------------------------ projection
def _f64(t):
    a = t.detach().cpu().numpy() if hasattr(t, "detach") else np.asarray(t)
    return a.astype(np.float64)


def project_points(t, last=2):
    """(..., 2) tensor -> list of <<x64, y64, v>>; v = 1 finite, 0 NaN, 2 out of the integer range."""
    a = _f64(t).reshape(-1, last)
    out = []
    for x, y in a:
        if np.isnan(x) or np.isnan(y):
            out.append([0, 0, 0])
        elif not (abs(x) < 2 ** 20 and abs(y) < 2 ** 20):
            out.append([0, 0, 2])
        else:
            out.append([int(round(x * 64)), int(round(y * 64)), 1])
    return out


def close(a, b, tol):
    """Pairwise allclose flag and the measured largest difference (quantised upwards to 2^-16; 2^30: shapes differ)."""
    a, b = _f64(a), _f64(b)
    if a.shape != b.shape:
        return 0, 2 ** 30
    if a.size == 0:
        return 1, 0
    nan_a, nan_b = np.isnan(a), np.isnan(b)
    if not np.array_equal(nan_a, nan_b):
        return 0, 2 ** 30 - 1
    d = np.abs(np.where(nan_a, 0.0, a) - np.where(nan_b, 0.0, b))
    m = float(d.max())
    return int(m <= tol), int(min(np.ceil(m * 65536), 2 ** 30 - 2))


def shape_of(t):
    return [int(x) for x in (t.shape if hasattr(t, "shape") else np.asarray(t).shape)]
