"""Worker for X06: real ModelTrainer.train() runs whose validation losses are scripted (the environment of the control
loop), several jobs per process.  The module's `log` is wrapped: the value logged as "val_loss" is replaced by the
script's value for that epoch, and when the real training_step logs its loss the learning rate of the real optimiser
is recorded.  Everything else - callbacks, scheduler, trainer - is the code under test."""
import json
import math
import os
import shutil
import sys

ROOT = os.path.dirname(os.path.dirname(os.path.abspath(__file__)))
sys.path.insert(0, ROOT)
LR0 = 2.0 ** -7


def trainer_sections(c):
    """spec units -> the trainer_config sections"""
    es = {"stop_training_on_plateau": bool(c["es"]), "min_delta": c["md"] / 4.0, "patience": int(c["pat"])}
    if c["sched"] == "none":
        lrs = None
    elif c["sched"] == "step":
        lrs = {"step_lr": {"step_size": int(c["step"]), "gamma": 0.5}, "reduce_lr_on_plateau": None}
    else:
        lrs = {"step_lr": None, "reduce_lr_on_plateau": {"threshold": c["thr"] / 4.0, "threshold_mode": c["mode"], "cooldown": int(c["cool"]),
                                                           "patience": int(c["rpat"]), "factor": 0.5, "min_lr": LR0 / 2 ** int(c["K"])}}
    return es, lrs


def main():
    with open(sys.argv[1]) as f:
        J = json.load(f)
    repo, work = J["repo"], J["work"]
    from harness import shim  # noqa
    import logging
    import warnings
    import torch
    from omegaconf import OmegaConf
    from loguru import logger
    from harness.trainrun import plain_config

    logger.remove()
    warnings.filterwarnings("ignore")
    for n in ("lightning.pytorch", "lightning", "lightning.pytorch.utilities.rank_zero", "lightning.fabric.utilities.rank_zero"):
        logging.getLogger(n).setLevel(logging.ERROR)
    import sleap_nn.training.lightning_modules as lm
    from sleap_nn.training.model_trainer import ModelTrainer

    state = dict(script=[], rec=[])
    orig = lm.TrainingModel.log

    def log(self, name, value, *a, **k):
        if not self.trainer.sanity_checking:
            e = int(self.current_epoch)
            if name == "val_loss":
                v = state["script"][min(e, len(state["script"]) - 1)]
                value = torch.tensor(v / 4.0, dtype=torch.float32)
                state["rec"].append(("val", e, v))
            elif name == "train_loss":
                # the rate this epoch's training step runs with, read from the real optimiser (the value the module logs
                # as "learning_rate" is read during validation, i.e. after a step schedule has already moved on)
                state["rec"].append(("lr", e, float(self.optimizers().optimizer.param_groups[0]["lr"])))
        return orig(self, name, value, *a, **k)

    lm.TrainingModel.log = log
    out = []
    for n, job in enumerate(J["jobs"]):
        c = job["cfg"]
        state["script"], state["rec"] = list(job["losses"]), []
        od = os.path.join(work, "out%d" % n)
        obs = dict(id=job["id"], ep=[], fin=dict(best=-1, last=-1, raised=""), ran=-1)
        try:
            tj = dict(model=job["model"], fw="torch_dataset", wandb=False, ckpt=True, structured=False, lowmem=False, sched="none")
            plain = plain_config(tj, repo, od, None, "k" * 32)
            if job["model"] == "single_instance":
                # single-instance models need single-animal labels: keep the first animal of the asset
                import sleap_io as sio
                one = os.path.join(work, "single_animal.pkg.slp")
                if not os.path.exists(one):
                    lab = sio.load_slp(plain["data_config"]["train_labels_path"])
                    for lf in lab:
                        lf.instances = lf.instances[:1]
                    sio.save_slp(lab, one, embed="user")
                plain["data_config"]["train_labels_path"] = one
                plain["data_config"]["val_labels_path"] = one
            es, lrs = trainer_sections(c)
            if job.get("structured"):
                from sleap_nn.config.training_job_config import TrainingJobConfig
                from sleap_nn.train import get_data_config, get_model_config, get_trainer_config
                dc = get_data_config(train_labels_path=plain["data_config"]["train_labels_path"], val_labels_path=plain["data_config"]["val_labels_path"],
                                     data_pipeline_fw="torch_dataset", scale=1.0, crop_hw=(160, 160), use_augmentations_train=False)
                mc = get_model_config(init_weight="default", backbone_config={"unet": plain["model_config"]["backbone_config"]["unet"]},
                                      head_configs={job["model"]: plain["model_config"]["head_configs"][job["model"]]})
                lrs_arg = None if lrs is None else {kk: vv for kk, vv in lrs.items() if vv is not None}
                tc = get_trainer_config(batch_size=1, shuffle_train=False, num_workers=0, ckpt_save_top_k=1, ckpt_save_last=bool(c["save_last"]),
                                        trainer_num_devices=1, trainer_accelerator="cpu", enable_progress_bar=False, steps_per_epoch=1,
                                        max_epochs=int(c["max_epochs"]), seed=1000, use_wandb=False, save_ckpt=True, save_ckpt_path=od,
                                        optimizer="Adam", learning_rate=LR0, lr_scheduler=lrs_arg, early_stopping=bool(c["es"]),
                                        early_stopping_min_delta=c["md"] / 4.0, early_stopping_patience=int(c["pat"]))
                cfg = TrainingJobConfig(data_config=dc, model_config=mc, trainer_config=tc).to_sleap_nn_cfg()
            else:
                t = plain["trainer_config"]
                t["max_epochs"] = int(c["max_epochs"])
                t["optimizer"]["lr"] = LR0
                t["early_stopping"] = es
                t["lr_scheduler"] = lrs
                t["model_ckpt"] = {"save_top_k": 1, "save_last": bool(c["save_last"])}
                cfg = OmegaConf.create(plain)
            tr = ModelTrainer(cfg)
            tr.train()
            obs["ran"] = int(tr.trainer.current_epoch)
            vals = {e: v for kind, e, v in state["rec"] if kind == "val"}
            lrsd = {e: v for kind, e, v in state["rec"] if kind == "lr"}
            for e in sorted(vals):
                lr = lrsd.get(e)
                kk = -1
                if lr and lr > 0:
                    x = math.log2(LR0 / lr)
                    kk = int(round(x)) if abs(x - round(x)) < 1e-9 and round(x) >= 0 else -1
                obs["ep"].append(dict(v=int(vals[e]), k=kk))
            if sorted(vals) != list(range(len(vals))) or obs["ran"] != len(vals):
                obs["fin"]["raised"] = "epochs validated %s but trainer reports %d epochs" % (sorted(vals), obs["ran"])
            for name in ("best", "last"):
                p = os.path.join(od, name + ".ckpt")
                if os.path.exists(p):
                    obs["fin"][name] = int(torch.load(p, weights_only=False, map_location="cpu")["epoch"])
        except BaseException as e:  # noqa
            import traceback
            obs["fin"]["raised"] = "%s: %s" % (type(e).__name__, " ".join(str(e).split())[:200])
            obs["tb"] = traceback.format_exc()[-800:]
        shutil.rmtree(od, ignore_errors=True)
        out.append(obs)
    with open(sys.argv[2], "w") as f:
        json.dump(out, f)


if __name__ == "__main__":
    main()
