"""Evidence writer and the common result type of all drivers."""
import json
import os
import time

ROOT = os.path.dirname(os.path.dirname(os.path.abspath(__file__)))
SCHEMA = "/root/.vp/EVIDENCE.schema.json"


class Violation:
    """One violation found by a driver.  `key` identifies WHAT fails (matched against
    known_findings.json); `case` is the replayable input/history; `clause` is the failing spec clause."""

    def __init__(self, key, clause, case, detail=""):
        self.key, self.clause, self.case, self.detail = dict(key), clause, case, detail

    def to_json(self):
        return dict(key=self.key, clause=self.clause, case=self.case, detail=self.detail)


class Result:
    def __init__(self, prop):
        self.prop = prop
        self.violations = []
        self.coverage = dict(states=0, transitions=0, traces_validated_against_impl=0, samples=[],
                             evaluations=0, distinct_nontrivial=0, rule="", exhaustive=False,
                             tlc_runs=[], clauses={})
        self.assumptions = []
        self.t0 = time.time()

    # -- bookkeeping helpers -------------------------------------------------
    def add_mc(self, name, r, note=""):
        """Record an exhaustive TLC design check."""
        self.coverage["states"] += r.distinct
        self.coverage["transitions"] += r.generated
        self.coverage["tlc_runs"].append(dict(model=name, distinct=r.distinct, generated=r.generated,
                                              depth=r.depth, wall_s=round(r.wall, 2), note=note,
                                              outcome=("ok" if r.violation is None else "%s %s" % r.violation)))

    def add_judge(self, name, j, note=""):
        self.coverage["states"] += j["states"]
        self.coverage["transitions"] += j["generated"]
        self.coverage["traces_validated_against_impl"] += j["accepted"] + j["rejected_n"]
        self.coverage["evaluations"] += j["accepted"] + j["rejected_n"]
        self.coverage["tlc_runs"].append(dict(model=name, cases=j["accepted"] + j["rejected_n"],
                                              accepted=j["accepted"], rejected=j["rejected_n"],
                                              wall_s=round(j["wall"], 2), jvms=j["runs"], note=note))

    def clause(self, name, n=1):
        self.coverage["clauses"][name] = self.coverage["clauses"].get(name, 0) + n

    def sample(self, s, cap=6):
        if len(self.coverage["samples"]) < cap:
            self.coverage["samples"].append(s)

    def violation(self, key, clause, case, detail=""):
        self.violations.append(Violation(key, clause, case, detail))


def write_evidence(res, tier, seed, level="model_checking"):
    cov = dict(res.coverage)
    if not cov["samples"]:
        cov["samples"] = ["(no case recorded)"]
    ev = dict(property_id=res.prop, tier=tier, seed=int(seed), level=level, coverage=cov,
              assumptions=res.assumptions, wall_s=round(time.time() - res.t0, 2),
              violations=len(res.new_violations) if hasattr(res, "new_violations") else len(res.violations))
    import jsonschema

    with open(SCHEMA) as f:
        jsonschema.validate(ev, json.load(f))
    os.makedirs(os.path.join(ROOT, "evidence"), exist_ok=True)
    path = os.path.join(ROOT, "evidence", res.prop + ".json")
    with open(path, "w") as f:
        json.dump(ev, f, indent=1, default=str)
    return path
