"""Environment-skew shims (DESIGN.md section 0).  Import this before any sleap_nn import.

* kornia 0.8.3 no longer exports kornia.core.Tensor, which sleap_nn.data.augmentation imports.
* VERIF_REPO (default /repo) is put first on sys.path so that a scratch copy of the tree can be
  checked with the same drivers (mutation self-tests, seeded changes).
* PredictedInstance.from_numpy signature differs between sleap-io versions.
"""
import os
import sys

REPO = os.environ.get("VERIF_REPO", "/repo")
if sys.path[0] != REPO:
    sys.path.insert(0, REPO)
os.environ.setdefault("SLEAP_NN_VERIF", "1")
os.environ.setdefault("PYTHONHASHSEED", "0")
os.environ.setdefault("WANDB_MODE", "offline")
os.environ.setdefault("WANDB_SILENT", "true")

import warnings

warnings.filterwarnings("ignore")

import torch  # noqa: E402
import kornia.core  # noqa: E402

if not hasattr(kornia.core, "Tensor"):
    kornia.core.Tensor = torch.Tensor

torch.set_num_threads(int(os.environ.get("VERIF_TORCH_THREADS", "1")))


def seed_all(seed: int):
    import random
    import numpy as np

    random.seed(seed)
    np.random.seed(seed % (2**32))
    torch.manual_seed(seed)


_SKEL = {}


def _skeleton(n):
    import sleap_io as sio

    if n not in _SKEL:
        _SKEL[n] = sio.Skeleton(nodes=["n%d" % i for i in range(n)])
    return _SKEL[n]


def predicted_instance(points, score=0.9, point_scores=None, skeleton=None):
    """Build a sio.PredictedInstance with whichever from_numpy signature this sleap-io has."""
    import numpy as np
    import sleap_io as sio

    points = np.asarray(points, dtype="float64")
    if point_scores is None:
        point_scores = np.ones(len(points))
    if skeleton is None:
        skeleton = _skeleton(len(points))
    try:
        return sio.PredictedInstance.from_numpy(
            points_data=points, point_scores=point_scores, score=score, skeleton=skeleton
        )
    except TypeError:
        return sio.PredictedInstance.from_numpy(
            points=points,
            point_scores=point_scores,
            instance_score=score,
            skeleton=skeleton,
        )


def assert_repo():
    import sleap_nn

    p = os.path.realpath(os.path.dirname(os.path.dirname(sleap_nn.__file__)))
    assert p == os.path.realpath(REPO), (p, REPO)
    return p


def _compat_sleap_io():
    """sleap-io 0.9.2 renamed from_numpy(points=, instance_score=) to (points_data=, score=).
    The repository calls the old names; accept both (environment skew, not a finding)."""
    import inspect
    import sleap_io as sio

    for cls in (sio.PredictedInstance, sio.Instance):
        orig = cls.__dict__.get("from_numpy")
        if orig is None:
            continue
        fn = orig.__func__
        if "points" in inspect.signature(fn).parameters:
            continue

        def make(fn):
            def from_numpy(c, *a, points=None, instance_score=None, **kw):
                if points is not None:
                    kw["points_data"] = points
                if instance_score is not None:
                    kw["score"] = instance_score
                return fn(c, *a, **kw)

            return classmethod(from_numpy)

        setattr(cls, "from_numpy", make(fn))


_compat_sleap_io()
os.environ.setdefault("TORCH_FORCE_NO_WEIGHTS_ONLY_LOAD", "1")
