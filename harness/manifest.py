"""Regenerate MANIFEST.json from the table below (kept valid at all times)."""
import json
import os

ROOT = os.path.dirname(os.path.dirname(os.path.abspath(__file__)))
BASE = "cd /repo && /venv/bin/python -m pytest -ra -q -p no:cacheprovider --timeout=900 --continue-on-collection-errors"

# id -> (technique, level text, level note, design ref)
CLAIMED = {
    "C17": ("TLA+ spec (Grouping.tla) model-checked with TLC over all rooted labelled trees x edge listings; real toposort_edges / PAFScorer replayed over the same exhaustive case space and judged by TLC against ValidOrder",
            "Design: every run of the specified breadth-first edge ordering is a valid parent-before-child order for every tree <= 5 nodes and every listing (TLC exhaustive). Code: the real function is run on the identical exhaustive case space (2..5 nodes quick, ..6 thorough, larger sampled) and each observed order is judged by the TLA+ definition; exhaustiveness of the fed space is itself checked by TLC.",
            "Trusts TLC, the JSON bridge, and that trees with more than 6-8 nodes behave like the enumerated ones.", "4 (C08/C17)"),
    "C13": ("TLA+ spec (FrameStream.tla) model-checked with TLC over all producer/consumer interleavings (safety + termination under fairness); every path of TLC's state graph forced on the real reader/consumer threads; free-running thread traces validated by Trace_FrameStream",
            "Design: all interleavings of reader and batching consumer for n<=4 frames, capacity<=3, batch<=3 and a read fault at every position satisfy 8 safety invariants and terminate (TLC, exhaustive, liveness under weak fairness; a counter-model without the finally-sentinel must hang). Code: each maximal path of the dumped state graph is forced step by step on the real VideoReader/LabelsReader thread and the real Predictor._predict_generator with state comparison after every step; free-running runs with larger constants are recorded under the queue mutex and validated by TLC against the same actions.",
            "Trusts TLC, the step scheduler (threads park at put/get/read/infer/join), FakeVideo/FakeLabels instead of real decoding; bounds n<=4 forced, n<=40 free.", "4 (C13)"),
    "C09": ("TLA+ spec (Tracker.tla) model-checked with TLC (reply clause under any assignment, Track always enabled); real Tracker.track() histories (all presence histories + random scenes, all store x matcher x feature configurations) validated frame by frame by Trace_Tracker",
            "Design: for both candidate stores, with ANY injective partial assignment into existing tracks and any high/low score flags, every reachable step satisfies the reply clause (returned detections are an injective sub-list of the input, every above-threshold detection has a track, tracks distinct within the frame) and a step is always possible (TLC exhaustive, deadlock checking on). Code: every presence history (3 animals absent/high/low, length<=3) and seeded random scenes (crossings, coincident animals, NaN keypoints, gaps longer than the window) are run on the real Tracker for every store x matcher x feature/score configuration; TLC judges each frame's reply with the same clause.",
            "Trusts TLC, the JSON bridge, object identity for 'the same detection'; FlowShiftTracker/image features/max_tracks not covered; scenes bounded (6 animals, 30 frames).", "4 (C09/C10)"),
    "C10": ("TLA+ spec (Tracker.tla) model-checked with TLC over all scenario-class histories (Identity, Distinct; counter-model outside the class must fail); paths of TLC's state graph replayed on the real Tracker and validated step by step by Trace_Tracker against the Track action",
            "Design: all histories of <=3 animals over 4-5 frames inside the scenario class keep identity, for 2 stores x 2 matchers x 2 reductions x windows {2,3} (TLC exhaustive); without the class restriction TLC finds the identity hand-over (non-vacuity). Code: maximal paths of the dumped state graph are replayed on a fresh real Tracker (3 feature/score pairs, seeded detection permutations, sub-pixel drift) and each real frame must be a Track(D) step of the spec with the observed assignment, with Identity/Distinct evaluated in every state.",
            "Trusts TLC, the separation abstraction (190 px apart, <=0.5 px drift), graph-path sampling in the quick tier.", "4 (C09/C10)"),
    "C08": ("TLA+ spec (Grouping.tla) with the greedy assembly transcribed as coded and model-checked against connected components (TLC); real match_candidates_sample / PAFScorer.predict outputs judged by TLC against OptAssign and ValidGrouping with the observed line scores",
            "Design: for every rooted labelled tree <= 4 nodes, every parent-first edge order, <= 2 peaks per node and every accepted one-to-one match set, the as-coded assembly loop yields exactly the connected components with at most one peak per node (TLC exhaustive, 220k states); with a non parent-first order TLC refutes it (C17 is load-bearing). Code: all score matrices over {NaN,-2,0,1,3} up to 2x2/1x3 plus sampled 3x3 through match_candidates_sample, and seeded random PAFScorer.predict scenes (coincident peaks, peaks outside the PAF extent, empty samples, all scorer parameters); TLC checks per-edge optimality of the observed matches and that the returned instances are the partition into components with the right scores and filter.",
            "Trusts TLC, the 2^-16 score quantisation with stated slack; line-score geometry itself is C03's subject; non-tree skeletons out of scope.", "4 (C08/C17)"),
    "C19": ("TLA+ spec (TrainRun.tla) of the write order of a training run with Crash enabled in every state, model-checked with TLC (intended ordering holds, the ordering transcribed from the pinned code must violate); real ModelTrainer runs observed at every file-write boundary by an audit hook and validated by Trace_TrainRun",
            "Design: for all 64 configurations and every crash point, the intended write order never leaves the key on disk and a completed run leaves the documented artifacts; the as-coded order of the pinned commit is refuted by TLC (documented deviation, now repaired). Code: real ModelTrainer(cfg)+train() runs (pairwise-covering subset quick, all 64 thorough; structured and plain; wandb offline) in separate processes under an audit hook that scans the output/chunk directories at every write/rename/remove boundary - every such disk state is a possible post-crash state; TLC requires NoKeyOnDisk in each, and completion, artifacts, initial = supplied and final = used configuration at the end.",
            "Trusts TLC, the audit hook (torch's C++ checkpoint writer is seen at the next boundary), 1-step CPU runs on the repository's asset; litdata, online wandb, multi-GPU, torn single writes not covered.", "4 (C19)"),
    "C01": ("TLA+ definition of the right confidence map on an integer lattice (Targets.tla) checked by TLC on an exhaustive family; real generate_confmaps / generate_multiconfmaps / generator classes run on the same exhaustive family plus seeded frames, every cell judged by TLC in the log domain",
            "Design: on every quarter-pixel keypoint placement around a 4x4 image x strides x sigmas x variants the ideal map satisfies the clause, the nearest cell is the argmin of the squared distance and corruptions (x/y swap, unscaled sigma, half-cell grid, first animal only) are rejected (TLC, ~10^5 states). Code: the real functions run on that exhaustive family (set equality with the model's space checked by TLC), all NaN patterns of 2 animals x 2 nodes, batches, and seeded random frames up to 5 animals x 6 nodes; TLC judges every cell (implied squared distance within stated slack, zero/NaN/range/argmax/shape clauses).",
            "Trusts TLC, the log-domain projection with slack |L-D| <= 1 + D/10^4, float32 exp; sigma in {1/2,1,3/2,5/2}; sides multiples of the stride.", "4 (C01/C05)"),
    "C05": ("TLA+ definition of the right part-affinity field on a half-pixel lattice (Targets.tla) checked by TLC; real generate_pafs / PartAffinityFieldsGenerator run on the exhaustive pair family plus seeded frames, every cell judged by TLC",
            "Design: exact integer segment-distance lemmas and acceptance of an exact ideal field for all source/destination pairs on the half-pixel lattice of a 4x4 image; named corruptions are rejected (TLC). Code: the real functions on all 57,800 pair cases (set equality checked by TLC), all 3^6 NaN patterns of 2 animals x 3 nodes x 2 edges, zero animals and seeded random frames; TLC judges direction (parallel, not anti-parallel), magnitude in [0,1], 1 on the segment, monotone in exact distance, exact zeros, additivity over animals, channel layout and shape.",
            "Trusts TLC and the 1e-4 quanta with stated slack; sub-pixel edges, the margin strip (unspecified by the property) and the weight profile beyond monotonicity are not judged.", "4 (C01/C05)"),
    "C04": ("TLA+ spec (Geometry.tla) of the geometric stages with as-coded arithmetic, model-checked over the configuration grid (exact size/padding clauses hold; Registered over the whole grid must be violated = the known drift); real functional API and the four Dataset classes run on coordinate-coded images, each stage boundary a trace event with the content affine fitted by least squares, validated by Trace_Geometry",
            "Design: 17,904 configurations of sizes x max sizes x scales x strides x crops x anchors x pipelines: exact size, bottom/right padding, crop-centred and crop-size clauses hold everywhere, Registered holds on the sub-grid of exact ratios and TLC finds the >1 px drift elsewhere before any code runs. Code: every exported configuration through the real functions/datapipes and real kornia augmentation, and the four real Dataset classes end to end with stage functions wrapped; the image content's affine is measured, never read from the code; TLC judges registration, sizes, padding side, keypoint bit-identity under intensity augmentation, gray vs RGB.",
            "Trusts TLC, the content fit (residual-checked), 1/16 px slack; np_chunks, erase/mixup, images > 256 px not covered. Two known findings (resize drift, kornia non-square warp) are listed in known_findings.json.", "4 (C04)"),
    "C20": ("TLA+ spec (Config.tla): argument->path map, augmentation list as a state machine (as coded vs intended) and normalise/save/load as functions, model-checked with TLC over all ordered lists; every exported builder case run on the real builders and judged by TLC against Expected(case)",
            "Design: over all 326 geometric and 65 intensity ordered lists the intended loop equals the set definition and enables every listed name while the loop transcribed from the pinned code is refuted by TLC; normalisation is idempotent and the YAML round trip lossless on the model (a lossy writer is refuted). Code: 1,906 (quick) / 8,755 (thorough) TLC-exported cases - single and pairwise argument overrides, every ordered list, the head x backbone x preset grid, invalid inputs and constructor probes - run through get_*_config, TrainingJobConfig.to_sleap_nn_cfg, verify_training_cfg twice and an OmegaConf save/load; TLC recomputes the expected configuration and names the first failing clause.",
            "Trusts TLC, schema defaults measured through OmegaConf.structured, the documented builder defaults; hydra CLI not covered.", "4 (C20)"),
}
ALL = ["C%02d" % i for i in range(1, 21)]
NOT_YET = "check not built yet in this round (planned, see DESIGN.md section 4/8)"


def main():
    checks = []
    for pid in sorted(CLAIMED):
        tech, text, note, ref = CLAIMED[pid]
        checks.append(dict(property_id=pid, quick_cmd="./check %s --tier quick" % pid,
                           thorough_cmd="./check %s --tier thorough" % pid,
                           evidence_file="/verif/evidence/%s.json" % pid,
                           replay_cmd_template="./check %s --replay {path}" % pid,
                           engine="tlc", technique=tech,
                           level_claimed=dict(category="model_checking", text=text, design_ref="DESIGN.md section " + ref),
                           level_note=note))
    na = [dict(property_id=p, reason=NA.get(p, NOT_YET)) for p in ALL if p not in CLAIMED]
    m = dict(version=1,
             setup_cmd="./setup.sh",
             hooks=dict(guard="SLEAP_NN_VERIF", enable="no source hook is needed: all observation points are reached from outside (substituted queues/videos, wrapped module functions, audit hooks); SLEAP_NN_VERIF=1 is exported by the harness for any future hook",
                        baseline_off_cmd=BASE, source_commits=[], add_only=True),
             engines=[dict(name="tlc", path="/verif/spec", serves_properties=sorted(CLAIMED),
                           kind_free_text="TLA+ specifications checked with TLC (exhaustive design models MC_*, batch judges Judge_*, trace specs Trace_*), bound to the code by Python drivers in /verif/drivers")],
             checks=checks, not_applicable=na,
             notes="See DESIGN.md. known_findings.json lists genuine defects recorded or fixed.")
    with open(os.path.join(ROOT, "MANIFEST.json"), "w") as f:
        json.dump(m, f, indent=1)
    import jsonschema
    jsonschema.validate(m, json.load(open("/root/.vp/MANIFEST.schema.json")))
    print("MANIFEST.json: %d checks, %d not_applicable" % (len(checks), len(na)))


NA = {}
if __name__ == "__main__":
    main()
