"""Drive the real sleap_nn Tracker along a history of frames and record what it returns."""
import numpy as np

FEATURES = [("keypoints", "oks"), ("centroids", "euclidean_dist"), ("bboxes", "iou")]
POSE = np.array([[0.0, 0.0], [40.0, 0.0], [0.0, 40.0]])


def tracker_configs(tier):
    out = []
    for store in ("fixed", "local"):
        for match in ("hungarian", "greedy"):
            for feat, score in FEATURES:
                for red in (("mean", "max") if tier == "thorough" else ("mean",)):
                    out.append(dict(store=store, match=match, red=red, feat=feat, score=score))
    if tier != "thorough":
        out += [dict(store="fixed", match="hungarian", red="max", feat="keypoints", score="oks"),
                dict(store="local", match="greedy", red="max", feat="centroids", score="euclidean_dist")]
    # FlowShiftTracker (use_flow=True): candidates are shifted onto the current frame by optical flow on a static texture
    k = 0
    for store in ("fixed", "local"):
        for match in ("hungarian", "greedy"):
            feats = FEATURES if tier == "thorough" else [FEATURES[k % 3]]
            k += 1
            for feat, score in feats:
                out.append(dict(store=store, match=match, red="mean", feat=feat, score=score, flow=True))
    return out


_TEXTURE = {}


def texture(ch=1):
    """static random texture, channels last like LabeledFrame.image: the optical flow between two frames is zero"""
    if ch not in _TEXTURE:
        _TEXTURE[ch] = (np.random.default_rng(7).random((960, 1200, ch)) * 255).astype("uint8")
    return _TEXTURE[ch]


def make_tracker(tc, w, thr=0.5):
    from sleap_nn.tracking.tracker import Tracker

    return Tracker.from_config(window_size=w, instance_score_threshold=thr,
                               candidates_method="fixed_window" if tc["store"] == "fixed" else "local_queues",
                               features=tc["feat"], scoring_method=tc["score"], scoring_reduction=tc["red"],
                               track_matching_method=tc["match"], use_flow=bool(tc.get("flow")))


def run_history(tc, w, frames, thr=0.5):
    """frames: list of lists of dict(a=animal id, hi=bool, pts=(n,2) array).  Returns the trace frames."""
    from harness.shim import predicted_instance

    # score / threshold values (a function of the history, so that replays agree): the usual 0.9 / 0.3 against 0.5; a low score
    # EQUAL to the threshold ("exceeds" is strict); the constructors' default threshold 0.0 with low scores of exactly 0.0.
    # Frame numbers start at 0 or at 17 (a clip cut out of a longer video).
    nd = len(frames) + sum(len(d) for d in frames)
    hi_s, lo_s, thr = ((0.9, 0.3, thr), (0.9, thr, thr), (0.7, 0.0, 0.0))[nd % 3]
    fi0 = 17 if (nd // 3) % 2 else 0
    tr = make_tracker(tc, w, thr)
    out = []
    for fi, dets in enumerate(frames):
        fi = fi + fi0
        insts = [predicted_instance(d["pts"], score=(hi_s if d["hi"] else lo_s)) for d in dets]
        rec = dict(dets=[dict(a=int(d["a"]), hi=bool(d["hi"])) for d in dets], ret=[], raised=False, err="")
        try:
            res = tr.track(insts, fi, image=texture(1 if len(frames) % 2 else 3)) if tc.get("flow") else tr.track(insts, fi)
            for o in res:
                idx = next((k + 1 for k, x in enumerate(insts) if x is o), 0)
                trk = -1
                if getattr(o, "track", None) is not None:
                    try:
                        trk = int(o.track.name)
                    except Exception:
                        trk = -2
                rec["ret"].append([idx, trk])
        except Exception as e:
            rec["raised"] = True
            rec["err"] = "%s: %s" % (type(e).__name__, str(e)[:200])
        out.append(rec)
        if rec["raised"]:
            break
    return out


def animal_pose(a, rng, drift):
    # layout "diagonal": neighbours on a diagonal, their bounding boxes 1.25 body sizes apart in x AND in y (still far apart
    # compared with a drift of half a pixel per frame) - boxes that are disjoint along both axes at once
    base = np.array([90.0 * a, 90.0 * a]) if drift.get("layout") == "diagonal" else np.array([190.0 * a, 150.0 * a])
    if ("rest", a) not in drift:          # a quarter of the animals do not move at all (identical pose on every frame)
        drift[("rest", a)] = rng.random() < 0.25
    step = np.zeros(2) if drift[("rest", a)] else np.array([rng.uniform(-0.5, 0.5), rng.uniform(-0.5, 0.5)])
    drift[a] = drift.get(a, np.zeros(2)) + step
    return POSE + base + drift[a]
