"""Projection rules for the target stages (C01 confidence maps, C05 part-affinity fields).

DESIGN.md 1.3: the harness only PROJECTS float outputs to small integers by the fixed rules below
(class tags, log-domain rounding, fixed-point rounding, arg-max set by relative closeness).  It
computes no expected value and no verdict; spec/Targets.tla judges every cell.
"""
import numpy as np
import torch

NAN = 1000000          # Targets!NaN : lattice coordinate of a missing value
CZERO, CTINY, CNAN, CINF, CNEG, CGT1 = -1, -2, -3, -4, -5, -6
Q = 10000              # Targets!Q   : fixed-point quantum of PAF values
PNAN, PINF = 1000000, 1000001
SIGMAS = [(1, 2), (1, 1), (3, 2), (5, 2)]


def lattice_tensor(pts, den):
    """nested list of lattice integers (NAN = missing) -> float32 tensor of pixel coordinates.
    den = 4 (quarter pixels, C01) or 2 (half pixels, C05): exactly representable in float32."""
    a = np.asarray(pts, dtype=np.float64)
    out = a / den
    out[a == NAN] = np.nan
    return torch.tensor(out, dtype=torch.float32)


def conf_k(sn, sd, s):
    """32 sigma^2 s^2 (an integer for the sigmas used)."""
    num = 32 * sn * sn * s * s
    assert num % (sd * sd) == 0
    return num // (sd * sd)


def project_confmaps(maps, k):
    """maps: float tensor (..., C, h, w) -> (codes, amax)
    codes: int array (..., C, h*w): L = round(-ln(v) * k) for v >= 1e-30, else a class code
    amax : nested lists (..., C) of 1-based cell indices whose value is within 1e-6 (relative) of the
           channel maximum over finite values (empty if that maximum is <= 0)."""
    a = maps.detach().cpu().numpy().astype(np.float64)
    a = a.reshape(a.shape[:-2] + (-1,))
    with np.errstate(all="ignore"):
        L = np.rint(-np.log(a) * k)
    L = np.where(np.isfinite(L), L, 0)
    code = np.where(np.isnan(a), CNAN,
           np.where(np.isinf(a), CINF,
           np.where(a < 0, CNEG,
           np.where(a > 1, CGT1,
           np.where(a == 0, CZERO,
           np.where(a < 1e-30, CTINY, L)))))).astype(np.int64)
    fin = np.isfinite(a)
    vmax = np.where(fin, a, -np.inf).max(axis=-1, keepdims=True)
    hit = fin & (vmax > 0) & (a >= vmax * (1 - 1e-6))
    flat_hit = hit.reshape(-1, hit.shape[-1])
    am = [(np.nonzero(r)[0] + 1).tolist() for r in flat_hit]
    # re-nest to the leading shape
    lead = hit.shape[:-1]

    def nest(lst, shape):
        if len(shape) == 1:
            return lst
        step = len(lst) // shape[0]
        return [nest(lst[i * step:(i + 1) * step], shape[1:]) for i in range(shape[0])]

    return code, nest(am, lead)


def project_pafs(pafs):
    """pafs: float tensor (..., 2E, h, w) -> dict(f, nz, m)
    f : int array (..., 2E, h*w) round(v * Q), PNAN / PINF for nan / inf
    nz: int array (..., 2E) number of cells whose value is not exactly 0.0
    m : int array (..., E, h*w) round(hypot(x, y) * Q) of each edge's vector (0 where not finite)"""
    a = pafs.detach().cpu().numpy().astype(np.float64)
    a = a.reshape(a.shape[:-2] + (-1,))
    fin = np.isfinite(a)
    f = np.where(np.isnan(a), PNAN, np.where(np.isinf(a), PINF, np.rint(np.where(fin, a, 0) * Q))).astype(np.int64)
    nz = (a != 0).sum(axis=-1).astype(np.int64)
    x = np.where(fin, a, 0)[..., 0::2, :]
    y = np.where(fin, a, 0)[..., 1::2, :]
    m = np.rint(np.hypot(x, y) * Q).astype(np.int64)
    return dict(f=f, nz=nz, m=m)
