"""Regenerate the table of DESIGN.md 9.4 (hand-written mutants) from selftest logs.

    python harness/mutant_table.py <selftest log> [<more logs / 'check mutant clauses' lines> ...] [--write]

Every line `<check> <mutant>.diff CAUGHT <clauses>` of the logs becomes a row (later logs override earlier ones); seeded
changes are left to harness/seeded_table.py.  Mutants present in mutants/ but absent from the logs are listed with
"(not in this run)"."""
import os
import re
import sys

ROOT = os.path.dirname(os.path.dirname(os.path.abspath(__file__)))
HEAD = "| check | mutant | failing clauses |"


def rows(logs):
    seen = {}
    for lg in logs:
        for ln in open(lg):
            m = re.match(r"^(\S+)\s+(\S+)\.diff\s+(CAUGHT|MISSED|NOT-APPLIED)\s*(.*)$", ln.strip())
            if m and not m.group(2).startswith("seeded/"):
                seen[(m.group(1), m.group(2))] = (m.group(3), m.group(4).strip())
    out = []
    for f in sorted(os.listdir(os.path.join(ROOT, "mutants"))):
        if not f.endswith(".diff"):
            continue
        name = f[:-5]
        chk = name.split("_")[0]
        st, cl = seen.get((chk, name), ("", "(not in this run)"))
        out.append("| %s | %s | %s |" % (chk, name, (cl if st in ("CAUGHT", "") else st + " " + cl)[:150]))
    return out


if __name__ == "__main__":
    logs = [a for a in sys.argv[1:] if a != "--write"]
    t = "\n".join([HEAD, "|---|---|---|"] + rows(logs)) + "\n"
    if "--write" in sys.argv:
        p = os.path.join(ROOT, "DESIGN.md")
        s = open(p).read()
        i = s.index(HEAD)
        n = 0
        for ln in s[i:].split("\n"):
            if not ln.startswith("|"):
                break
            n += len(ln) + 1
        open(p, "w").write(s[:i] + t + s[i + n:])
        print("rows:", t.count("\n") - 2)
    else:
        sys.stdout.write(t)
