"""Whole inference sessions: real Predictor.predict(make_labels=True) with a real Tracker attached, ideal-network
stubs, scenario-class scenes.  Produces traces for spec/Trace_System.tla."""
import numpy as np

H, W = 64, 112
POSE = np.array([[0.0, 0.0], [8.0, 1.0], [3.0, 9.0]])
EDGES = [(0, 1), (0, 2)]


def scene_from_history(hist, rng):
    """hist: list of sets/lists of animals (1..3) present per frame -> frames for make_source"""
    drift = {}
    frames = []
    for D in hist:
        animals, ids = [], []
        for a in sorted(D):
            drift[a] = drift.get(a, np.zeros(2)) + np.array([rng.uniform(-0.4, 0.4), rng.uniform(-0.4, 0.4)])
            base = np.array([12.0 + (a - 1) * 36.0, 18.0 + (a - 1) * 12.0])
            animals.append(np.round((POSE + base + drift[a]) * 4) / 4.0)
            ids.append(a)
        frames.append(dict(hw=(H, W), animals=animals, ids=ids))
    return frames


def run_session(kind, tc, w, hist, rng):
    """kind: 'topdown' | 'bottomup'; tc: tracker configuration dict (store, match, red, feat, score)."""
    from harness import inferplane as ip
    from harness.tracker_util import make_tracker

    frames = scene_from_history(hist, rng)
    labels = ip.make_source(frames, 3, EDGES)
    if kind == "topdown":
        pred, _ = ip.build_topdown(dict(scale=1.0, cscale=1.0, max_stride=8, stride=2, cstride=2, crop=32, anchor=0, refine="integral", batch=2), frames, 3)
    else:
        pred, _ = ip.build_bottomup(dict(scale=1.0, max_stride=8, stride=2, pstride=2, refine="integral", batch=2), frames, 3, EDGES)
    pred.tracker = make_tracker(tc, w, thr=0.0)
    out = dict(frames=[], raised="", skipped_with_animals=0, stream=None)
    from harness.sched import Sched
    slog = Sched(forced=False, seed=rng.randrange(1 << 30))
    cap = rng.choice([1, 2, 4])
    try:
        lab = ip.run_predictor(pred, "LabelsReader", labels, 2, make_labels=True, stream_log=slog, queue_maxsize=cap)
        with slog.seqlock:
            evs = sorted(slog.events)
        # the same run as a FrameStream trace: positions are frame index + 1 (one video, all frames labelled, in order)
        conv = []
        for _, k, a in evs:
            if k in ("read", "put"):
                conv.append([k, int(a) + 1])
            elif k == "get":
                conv.append([k, -1 if a == -1 else int(a) + 1])
            elif k == "infer":
                conv.append([k, [int(x) + 1 for x in a]])
            else:
                conv.append([k, 0])
        out["stream"] = dict(cfg=dict(n=len(frames), cap=cap, b=2, fail=0), ev=conv)
    except Exception as e:
        import traceback
        out["raised"] = "%s: %s | %s" % (type(e).__name__, str(e)[:200], traceback.format_exc()[-300:].replace("\n", " / "))
        out["frames"].append(dict(fidx=0, want=[], dets=[], ret=[], raised=True))
        return out
    seen = set()
    for lf in lab:
        fi = int(lf.frame_idx)
        seen.add(fi)
        fr = frames[fi] if 0 <= fi < len(frames) else dict(animals=[], ids=[])
        dets, ret = [], []
        for k, inst in enumerate(lf.instances):
            p = np.asarray(inst.numpy(), dtype=np.float64)
            if not np.any(np.isfinite(p)):
                continue
            a_id = 0
            for a, pts in zip(fr["ids"], fr["animals"]):
                if np.nanmax(np.abs(p - pts)) < 3.0:
                    a_id = a
            dets.append(dict(a=int(a_id), hi=True))
            trk = -1
            if getattr(inst, "track", None) is not None:
                try:
                    trk = int(inst.track.name)
                except Exception:
                    trk = -2
            ret.append([len(dets), trk])
        out["frames"].append(dict(fidx=fi, want=[int(a) for a in fr["ids"]], dets=dets, ret=ret, raised=False))
    out["skipped_with_animals"] = sum(1 for fi, fr in enumerate(frames) if fi not in seen and fr["ids"])
    return out
