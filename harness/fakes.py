"""Fake video / labels objects for driving the readers and predictors without files."""
import numpy as np


class FakeVideo:
    """Quacks like sio.Video for VideoReader: shape, __getitem__.  Frame i is an HxWxC uint8 image whose
    pixels all equal (i mod 251) + 1 unless `images` is given.  Raises at index `fail_idx`."""

    def __init__(self, n, h=8, w=8, c=1, fail_idx=None, sched=None, images=None, sizes=None):
        self.n, self.h, self.w, self.c = n, h, w, c
        self.fail_idx, self.sched, self.images, self.sizes = fail_idx, sched, images, sizes
        self.filename = "fake.mp4"
        self.backend = None

    @property
    def shape(self):
        if self.sizes:
            return (self.n, max(s[0] for s in self.sizes), max(s[1] for s in self.sizes), self.c)
        return (self.n, self.h, self.w, self.c)

    def __len__(self):
        return self.n

    def frame(self, idx):
        if self.images is not None:
            return self.images[idx]
        h, w = self.sizes[idx] if self.sizes else (self.h, self.w)
        return np.full((h, w, self.c), (idx % 251) + 1, dtype=np.uint8)

    def __getitem__(self, idx):
        if self.sched is not None:
            self.sched.arrive("prod", "read", int(idx))
        if self.fail_idx is not None and idx == self.fail_idx:
            if self.sched is not None:
                self.sched.log("readfail", int(idx))
            raise IOError("injected read failure at frame %d" % idx)
        if self.sched is not None:
            self.sched.log("read", int(idx))
        return self.frame(idx)


class RealVideo:
    """A real sio.Video (real decoding of a file) behind the same hook points as FakeVideo."""

    def __init__(self, video, fail_idx=None, sched=None):
        self.video, self.fail_idx, self.sched = video, fail_idx, sched
        self.filename, self.backend = video.filename, video.backend

    @property
    def shape(self):
        return self.video.shape

    def __len__(self):
        return len(self.video)

    def __getitem__(self, idx):
        if self.sched is not None:
            self.sched.arrive("prod", "read", int(idx))
        if self.fail_idx is not None and idx == self.fail_idx:
            if self.sched is not None:
                self.sched.log("readfail", int(idx))
            raise IOError("injected read failure at frame %d" % idx)
        if self.sched is not None:
            self.sched.log("read", int(idx))
        return self.video[idx]

    def __getattr__(self, k):
        return getattr(self.video, k)


class FakeInst:
    """Quacks like sio.Instance for LabelsReader(instances_key=True): is_empty, numpy()."""

    def __init__(self, seed=0, empty=False, nodes=2):
        self.is_empty, self._seed, self._nodes = bool(empty), seed, nodes

    def numpy(self):
        import numpy as np
        if self.is_empty:
            return np.full((self._nodes, 2), np.nan)
        return np.array([[1.0 + (self._seed + 3 * k) % 5, 1.0 + (self._seed + k) % 4] for k in range(self._nodes)], dtype="float64")


class FakeSkel:
    def __init__(self, n):
        self.nodes = ["n%d" % k for k in range(n)]


class FakeLF:
    def __init__(self, labels, pos, frame_idx, video, instances=()):
        self._labels, self.pos, self.frame_idx, self.video = labels, pos, frame_idx, video
        self.instances = list(instances)

    def __iter__(self):
        return iter(self.instances)

    def __len__(self):
        return len(self.instances)

    # like sio.LabeledFrame: every third labelled frame holds only PREDICTED instances (a frame of a prediction file, or one
    # the user has not corrected yet); LabelsReader must deliver it all the same
    @property
    def has_user_instances(self):
        return self.pos % 3 != 1

    @property
    def has_predicted_instances(self):
        return self.pos % 3 == 1

    @property
    def user_instances(self):
        return list(self.instances) if self.has_user_instances else []

    @property
    def predicted_instances(self):
        return [] if self.has_user_instances else list(self.instances)

    @property
    def image(self):
        L = self._labels
        if L.sched is not None:
            L.sched.arrive("prod", "read", int(self.pos))
        if L.fail_pos is not None and self.pos == L.fail_pos:
            if L.sched is not None:
                L.sched.log("readfail", int(self.pos))
            raise IOError("injected read failure at labelled frame %d" % self.pos)
        if L.sched is not None:
            L.sched.log("read", int(self.pos))
        return self.video.frame(self.frame_idx)


class FakeLabels:
    """Quacks like sio.Labels for LabelsReader: len, [], iteration, .videos.
    frames: list of (video_index, frame_idx); videos: list of FakeVideo (used without hooks)."""

    def __init__(self, videos, frames, fail_pos=None, sched=None, instances=None, skeletons=None):
        self.videos, self.fail_pos, self.sched = list(videos), fail_pos, sched
        self.lfs = [FakeLF(self, p, fi, self.videos[vi], (instances or {}).get(p, ())) for p, (vi, fi) in enumerate(frames)]
        self.skeletons = skeletons or []

    def __len__(self):
        return len(self.lfs)

    def __getitem__(self, i):
        return self.lfs[i]

    def __iter__(self):
        return iter(self.lfs)

    @property
    def labeled_frames(self):
        return self.lfs

    @property
    def user_labeled_frames(self):
        return [lf for lf in self.lfs if lf.has_user_instances]
