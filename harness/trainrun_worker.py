"""Worker: one real ModelTrainer construction + train() under the disk-state audit hook."""
import io
import json
import os
import sys
import zipfile

ROOT = os.path.dirname(os.path.dirname(os.path.abspath(__file__)))
sys.path.insert(0, ROOT)

CLASSES = [("initial_config.yaml", "initial_config"), ("training_config.yaml", "training_config"), ("best.ckpt", "ckpt_best"),
           ("last.ckpt", "ckpt_last"), ("metrics.csv", "metrics_csv"), ("hparams.yaml", "hparams_yaml"),
           ("pred_val.slp", "pred_val"), ("val_pred_metrics.npz", "val_metrics"), ("pred_test.slp", "pred_test"), ("test_pred_metrics.npz", "test_metrics")]


def classify(path, out_dir, chunk_dir):
    rel = os.path.relpath(path, out_dir)
    base = os.path.basename(path)
    for fb in ("train_chunks", "val_chunks"):
        if os.path.abspath(path).startswith(os.path.join(os.getcwd(), fb)):
            return "chunk_npz" if base.endswith(".npz") else "chunk_other"
    if chunk_dir and os.path.abspath(path).startswith(os.path.abspath(chunk_dir) + os.sep):
        if base == "config.yaml":
            return "chunk_config"
        return "chunk_npz" if base.endswith(".npz") else "chunk_other"
    for name, cls in CLASSES:
        # the run's artifacts live directly in the output directory (only the CSV logger's files sit in its version folder)
        if base == name and (rel == name or name in ("metrics.csv", "hparams.yaml")):
            return cls
    if base.endswith(".ckpt"):
        return "ckpt_other"
    if rel.split(os.sep)[0] == "wandb" or "wandb" in rel:
        return "wandb_files"
    return "other"


def has_token(path, token):
    try:
        with open(path, "rb") as f:
            data = f.read()
    except Exception:
        return False
    t = token.encode()
    if t in data:
        return True
    if data[:2] == b"PK":
        try:
            with zipfile.ZipFile(io.BytesIO(data)) as z:
                for n in z.namelist():
                    if t in z.read(n):
                        return True
        except Exception:
            pass
    return False


def main():
    with open(sys.argv[1]) as f:
        J = json.load(f)
    job, repo, work = J["job"], J["repo"], J["work"]
    out_dir = os.path.join(work, "out")
    if job.get("cwd_out"):
        # no output directory given (save_ckpt_path left unset): "the current working directory is used" - the run gets
        # a fresh one of its own (seed C19_r12)
        out_dir = os.path.join(work, "run")
        os.makedirs(out_dir)
        os.chdir(out_dir)
    chunk_dir = os.path.join(work, "chunks") if job["fw"] == "torch_dataset_np_chunks" else None
    import hashlib
    token = "K" + hashlib.sha256(("%s-%s" % (J["seed"], sorted(job.items()))).encode()).hexdigest()[:31]
    # the low-memory fallback writes its chunks to ./train_chunks and ./val_chunks relative to the working directory
    fallback = [os.path.join(os.getcwd(), "train_chunks"), os.path.join(os.getcwd(), "val_chunks")]
    watched = [os.path.abspath(out_dir)] + ([os.path.abspath(chunk_dir)] if chunk_dir else []) + fallback
    states, active, busy = [], [False], [False]

    def scan(ev_cls, ev_kind):
        files, keyed = set(), set()
        for d in watched:
            for r, _, fs in os.walk(d):
                for fn in fs:
                    p = os.path.join(r, fn)
                    c = classify(p, out_dir, chunk_dir)
                    files.add(c)
                    if has_token(p, token):
                        keyed.add(c)
        states.append(dict(ev=ev_cls, kind=ev_kind, files=sorted(files), keyed=sorted(keyed)))

    def hook(event, args):
        if not active[0] or busy[0]:
            return
        path = None
        kind = None
        if event == "open":
            p, mode, flags = args[0], args[1], args[2]
            if isinstance(p, (str, bytes, os.PathLike)) and ((isinstance(mode, str) and any(ch in mode for ch in "wax+")) or (isinstance(flags, int) and flags & (os.O_WRONLY | os.O_RDWR | os.O_CREAT))):
                path, kind = os.fsdecode(p), "write"
        elif event in ("os.rename", "os.replace"):
            path, kind = os.fsdecode(args[1]), "rename"
        elif event in ("os.remove", "os.unlink", "shutil.rmtree", "os.rmdir"):
            path, kind = os.fsdecode(args[0]), "remove"
        if path is None:
            return
        ap = os.path.abspath(path)
        if not any(ap == w or ap.startswith(w + os.sep) for w in watched):
            return
        busy[0] = True
        try:
            scan(classify(ap, out_dir, chunk_dir), kind)
        finally:
            busy[0] = False

    sys.addaudithook(hook)
    from harness import shim  # noqa
    shim.seed_all(J["seed"])
    from omegaconf import OmegaConf
    from harness.trainrun import plain_config

    obs = dict(job=job, token_len=len(token), raised="", stage="build")
    try:
        plain = plain_config(job, repo, out_dir, chunk_dir, token)
        if job["model"] == "single_instance":
            # single-instance models need single-animal labels: keep the first animal of the asset
            import sleap_io as sio
            lab = sio.load_slp(plain["data_config"]["train_labels_path"])
            for lf in lab:
                lf.instances = lf.instances[:1]
            one = os.path.join(work, "single_animal.pkg.slp")
            sio.save_slp(lab, one, embed="user")
            plain["data_config"]["train_labels_path"] = one
            plain["data_config"]["val_labels_path"] = one
        if job.get("media"):
            # labels that REFER to a video file (the usual project layout) instead of carrying embedded frames
            import sleap_io as sio
            lab = sio.load_slp(plain["data_config"]["train_labels_path"])
            vid = sio.load_video(os.path.join(repo, "tests/assets/centered_pair_small.mp4"))
            for lf in lab:
                lf.video = vid
            lab.videos = [vid]
            ref = os.path.join(work, "refers_to_video.slp")
            sio.save_slp(lab, ref, embed=False)
            plain["data_config"]["train_labels_path"] = ref
            plain["data_config"]["val_labels_path"] = ref
        if job.get("wide"):
            # frames that are NOT square (256 x 384, rows 64..320 of the asset frame): height and width are different
            # numbers everywhere they are derived, recorded and used (seed C19_r11)
            import numpy as np
            import sleap_io as sio
            from PIL import Image
            lab = sio.load_slp(plain["data_config"]["train_labels_path"])
            top = 64
            lfs, vids = [], []
            for k, lf in enumerate(lab):
                png = os.path.join(work, "wide_frame%d.png" % k)
                Image.fromarray(np.asarray(lf.image)[top:top + 256, :, 0]).save(png)
                vid = sio.Video.from_filename([png])
                vids.append(vid)
                insts = [sio.Instance.from_numpy(inst.numpy() - np.array([0.0, top]), skeleton=lab.skeletons[0]) for inst in lf.instances]
                lfs.append(sio.LabeledFrame(video=vid, frame_idx=0, instances=insts))
            wide = os.path.join(work, "wide.slp")
            sio.save_slp(sio.Labels(labeled_frames=lfs, videos=vids, skeletons=[lab.skeletons[0]]), wide)
            plain["data_config"]["train_labels_path"] = wide
            plain["data_config"]["val_labels_path"] = wide
        if job.get("cwd_out"):
            plain["trainer_config"]["save_ckpt_path"] = None
        if job.get("test"):
            plain["data_config"]["test_file_path"] = plain["data_config"]["val_labels_path"]
        if job.get("lean") and not job["structured"]:
            # a hand-written YAML that leaves out the entries the trainer itself treats as optional (it guards each with
            # `"<key>" in <section>`), and lets the trainer derive the crop size
            plain["data_config"]["preprocessing"].pop("min_crop_size", None)
            plain["data_config"].pop("chunk_size", None)
            if not job.get("test"):
                plain["data_config"].pop("test_file_path", None)
            if job["model"] == "centered_instance":
                plain["data_config"]["preprocessing"]["crop_hw"] = None
        if job.get("bare"):
            # the configuration classes with nothing but the required entries (and what keeps the run small and on the CPU):
            # every other option stays at its schema default - null sections, no seed, no scheduler, ...
            from sleap_nn.config.training_job_config import TrainingJobConfig
            from sleap_nn.config.data_config import DataConfig
            from sleap_nn.config import model_config as M
            from sleap_nn.config.trainer_config import TrainerConfig, WandBConfig
            hc = {"single_instance": lambda: M.HeadConfig(single_instance=M.SingleInstanceConfig(confmaps=M.SingleInstanceConfMapsConfig())),
                  "centered_instance": lambda: M.HeadConfig(centered_instance=M.CenteredInstanceConfig(confmaps=M.CenteredInstanceConfMapsConfig())),
                  "centroid": lambda: M.HeadConfig(centroid=M.CentroidConfig(confmaps=M.CentroidConfMapsConfig())),
                  "bottomup": lambda: M.HeadConfig(bottomup=M.BottomUpConfig(confmaps=M.BottomUpConfMapsConfig(), pafs=M.PAFConfig()))}[job["model"]]()
            dkw = dict(train_labels_path=plain["data_config"]["train_labels_path"], val_labels_path=plain["data_config"]["val_labels_path"])
            if job["fw"] != "torch_dataset":
                dkw.update(data_pipeline_fw=job["fw"], np_chunks_path=chunk_dir)
            tkw = dict(max_epochs=1, steps_per_epoch=1, trainer_accelerator="cpu", trainer_devices=1, enable_progress_bar=False,
                       save_ckpt=job["ckpt"], save_ckpt_path=(None if job.get("cwd_out") else out_dir))
            if job["wandb"]:
                tkw.update(use_wandb=True, wandb=WandBConfig(wandb_mode="offline", project="verif", name="run", api_key=token))
            cfg = TrainingJobConfig(data_config=DataConfig(**dkw), model_config=M.ModelConfig(backbone_config=M.BackboneConfig(unet=M.UNetConfig(filters=8, max_stride=8)), head_configs=hc),
                                    trainer_config=TrainerConfig(**tkw)).to_sleap_nn_cfg()
        elif job["structured"]:
            from sleap_nn.config.training_job_config import TrainingJobConfig
            from sleap_nn.config.data_config import DataConfig
            from sleap_nn.config.model_config import ModelConfig
            from sleap_nn.config.trainer_config import TrainerConfig
            from sleap_nn.train import get_data_config, get_model_config, get_trainer_config

            dc = get_data_config(train_labels_path=plain["data_config"]["train_labels_path"], val_labels_path=plain["data_config"]["val_labels_path"],
                                 data_pipeline_fw=job["fw"], np_chunks_path=chunk_dir, delete_chunks_after_training=True, scale=1.0,
                                 crop_hw=(160, 160), use_augmentations_train=False, test_file_path=plain["data_config"]["test_file_path"])
            mc = get_model_config(init_weight="default", backbone_config=plain["model_config"]["backbone_config"]["unet"] and {"unet": plain["model_config"]["backbone_config"]["unet"]},
                                  head_configs=(job["model"] if job.get("heads") == "default" else {job["model"]: plain["model_config"]["head_configs"][job["model"]]}))
            derived = job.get("feed") == "derived"
            tc = get_trainer_config(batch_size=(4 if derived else 1), shuffle_train=False, num_workers=0, ckpt_save_top_k=1, ckpt_save_last=True,
                                    trainer_num_devices=1, trainer_accelerator="cpu", enable_progress_bar=False, steps_per_epoch=(None if derived else 1),
                                    max_epochs=1, seed=1000, use_wandb=job["wandb"], save_ckpt=job["ckpt"], save_ckpt_path=(None if job.get("cwd_out") else out_dir),
                                    wandb_entity=None, wandb_project="verif", wandb_name="run", wandb_api_key=token, wandb_mode="offline",
                                    optimizer="Adam", learning_rate=1e-4, lr_scheduler=(None if job.get("sched", "none") == "none" else job["sched"]), early_stopping=False)
            cfg = TrainingJobConfig(data_config=dc, model_config=mc, trainer_config=tc).to_sleap_nn_cfg()
        else:
            cfg = OmegaConf.create(plain)
        if job.get("existing") and chunk_dir and not job.get("bare") and not job.get("reuse"):
            # a two-run history: an earlier run wrote the chunks and kept them (delete_chunks_after_training off); this run
            # re-uses them (use_existing_chunks) and is asked to delete them - afterwards none may remain (seed C19_r14)
            from sleap_nn.training.model_trainer import ModelTrainer as _MT
            cA = OmegaConf.create(OmegaConf.to_container(cfg, resolve=True))
            cA.trainer_config.save_ckpt_path = os.path.join(work, "earlier_run")
            cA.trainer_config.use_wandb = False
            cA.data_config.delete_chunks_after_training = False
            tA = _MT(cA)
            tA.train()
            cfg.data_config.use_existing_chunks = True
            cfg.data_config.delete_chunks_after_training = True
        if job.get("reuse") and not job.get("bare"):
            # a configuration that has been USED before: the final training_config.yaml of an earlier run (it carries a
            # data_config.skeletons section, filled-in part names, the run's derived sizes) is given to a new run on labels
            # whose skeleton has another name - what the new run records must be what the new run used (seed C19_r13)
            import sleap_io as sio
            from sleap_nn.training.model_trainer import ModelTrainer as _MT
            out0 = os.path.join(work, "earlier_run")
            c0 = OmegaConf.create(OmegaConf.to_container(cfg, resolve=True))
            c0.trainer_config.save_ckpt_path = out0
            c0.trainer_config.use_wandb = False
            if c0.data_config.get("np_chunks_path"):
                c0.data_config.np_chunks_path = os.path.join(work, "earlier_chunks")
            t0 = _MT(c0)
            t0.train()
            prev = OmegaConf.load(os.path.join(out0, "training_config.yaml"))
            lab = sio.load_slp(str(prev.data_config.train_labels_path))
            lab.skeletons[0].name = "mouse"
            ren = os.path.join(work, "renamed_skeleton.pkg.slp")
            sio.save_slp(lab, ren, embed="user")
            prev.data_config.train_labels_path = ren
            prev.data_config.val_labels_path = ren
            prev.trainer_config.save_ckpt_path = cfg.trainer_config.save_ckpt_path
            prev.trainer_config.use_wandb = cfg.trainer_config.use_wandb
            prev.trainer_config.wandb = cfg.trainer_config.wandb
            prev.data_config.np_chunks_path = cfg.data_config.get("np_chunks_path")
            cfg = prev
        from sleap_nn.config.training_job_config import verify_training_cfg
        supplied = OmegaConf.to_container(verify_training_cfg(OmegaConf.create(OmegaConf.to_container(cfg, resolve=True))), resolve=True)
        from sleap_nn.training.model_trainer import ModelTrainer
        import sleap_nn.training.model_trainer as mt
        if job.get("lowmem"):
            # simulated memory pressure: the in-memory cache "does not fit", the trainer must fall back to npz chunks
            class _VM:
                available = 1024

            class _PS:
                @staticmethod
                def virtual_memory():
                    return _VM()

            mt.psutil = _PS
        from loguru import logger
        logger.remove()
        active[0] = True
        if job.get("lifecycle"):
            # the whole lifecycle behind train() / the CLI: train, then predict + evaluate on the validation (and test) labels
            from sleap_nn.train import run_training
            obs["stage"] = "lifecycle"
            run_training(cfg)
            obs["stage"] = "done"
            active[0] = False
            used = None
        else:
            obs["stage"] = "init"
            trainer = ModelTrainer(cfg)
            obs["stage"] = "train"
            trainer.train()
            obs["stage"] = "done"
            active[0] = False
            used = OmegaConf.to_container(trainer.config, resolve=True)
            # the sizes the run actually worked with: what the datasets were built with (in-memory framework) / what the
            # trainer handed to the chunk writers
            ds = getattr(trainer, "train_dataset", None)
            mh, mw = (getattr(ds, "max_hw", None) or (trainer.max_height, trainer.max_width))
            obs["used_sizes"] = dict(max_height=mh, max_width=mw)
            obs["used_skeletons"] = [(sk.name if sk.name is not None else "skeleton-0") for sk in trainer.skeletons]
            if job["model"] == "centered_instance":
                ch = getattr(ds, "crop_hw", None) or (trainer.crop_hw, trainer.crop_hw)
                obs["used_sizes"]["crop_hw"] = [int(ch[0]), int(ch[1])]
    except BaseException as e:  # noqa
        active[0] = False
        import traceback
        obs["raised"] = "%s: %s" % (type(e).__name__, str(e)[:300])
        obs["tb"] = traceback.format_exc()[-1200:]
        used = None
        supplied = locals().get("supplied")
    scan("exit", "exit")

    def blank(c):
        if c is None:
            return None
        c = json.loads(json.dumps(c, default=str))
        try:
            c["trainer_config"]["wandb"]["api_key"] = ""
        except Exception:
            pass
        return c

    def load(name):
        p = os.path.join(out_dir, name)
        if not os.path.exists(p):
            return None
        from omegaconf import OmegaConf as OC
        return json.loads(json.dumps(OC.to_container(OC.load(p), resolve=True), default=str))

    def diff_paths(a, b, pre=""):
        if isinstance(a, dict) and isinstance(b, dict):
            out = []
            for k in sorted(set(a) | set(b)):
                if k not in a or k not in b:
                    out.append(pre + str(k))
                else:
                    out += diff_paths(a[k], b[k], pre + str(k) + ".")
            return out
        if isinstance(a, (list, tuple)) and isinstance(b, (list, tuple)) and len(a) == len(b):
            out = []
            for i, (x, y) in enumerate(zip(a, b)):
                out += diff_paths(x, y, pre + str(i) + ".")
            return out
        return [] if a == b else [pre.rstrip(".")]

    if job.get("lifecycle"):
        obs["content"] = ""
        try:
            if obs["stage"] == "done" and job["ckpt"]:
                import numpy as np
                import sleap_io as sio
                gt = sio.load_slp(plain["data_config"]["val_labels_path"])
                want = {(gt.videos.index(lf.video), int(lf.frame_idx)) for lf in gt}
                for split in (["val"] + (["test"] if job.get("test") else [])):
                    pl = sio.load_slp(os.path.join(out_dir, "pred_%s.slp" % split))
                    got = [(pl.videos.index(lf.video), int(lf.frame_idx)) for lf in pl]
                    if len(set(got)) != len(got):
                        obs["content"] = "frame_predicted_twice"
                    elif not set(got) <= want:
                        obs["content"] = "predicted_frame_not_in_labels"
                    elif [n.name for n in pl.skeletons[0].nodes] != [n.name for n in gt.skeletons[0].nodes]:
                        obs["content"] = "skeleton_differs"
                    z = np.load(os.path.join(out_dir, "%s_pred_metrics.npz" % split), allow_pickle=True)
                    if not {"voc_metrics", "mOKS", "distance_metrics", "pck_metrics", "visibility_metrics"} <= set(z.keys()):
                        obs["content"] = obs["content"] or "metrics_sections_missing"
                    else:
                        voc = z["voc_metrics"].item()
                        for k in ("oks_voc.mAP", "oks_voc.mAR"):
                            v = float(voc[k])
                            if not (0.0 <= v <= 1.0):
                                obs["content"] = obs["content"] or "metric_out_of_range"
        except Exception as e:  # noqa
            obs["content"] = "unreadable_%s" % type(e).__name__
    ini, fin = load("initial_config.yaml"), load("training_config.yaml")
    obs["initial_diff"] = (["<missing>"] if ini is None else diff_paths(blank(ini), blank(supplied)))[:12]
    obs["final_diff"] = (["<missing>"] if fin is None else (["<no live config>"] if used is None else diff_paths(blank(fin), blank(used))))[:12]
    if fin is not None and obs.get("used_skeletons") is not None:
        rec_sk = list((fin["data_config"].get("skeletons") or {}).keys())
        if rec_sk != obs["used_skeletons"]:
            obs["final_diff"].append("data_config.skeletons(recorded %s, run used %s)" % (rec_sk, obs["used_skeletons"]))
    if fin is not None and obs.get("used_sizes"):
        pre = fin["data_config"]["preprocessing"]
        for k, v in obs["used_sizes"].items():
            rec = pre.get(k)
            rec = list(rec) if isinstance(rec, (list, tuple)) else rec
            if rec != v and ("preprocessing.%s" % k) not in obs["final_diff"]:
                obs["final_diff"].append("data_config.preprocessing.%s(recorded %s, run used %s)" % (k, rec, v))
    obs["states"] = states
    with open(sys.argv[2], "w") as f:
        json.dump(obs, f)


if __name__ == "__main__":
    main()
