"""Deterministic step scheduler for the reader/consumer threads (C13) plus a free-running event log.

Forced mode: every hook point calls arrive(role, kind, arg) and parks until the controller grants
that role one step; the controller then waits until the role parks again (or finishes), so the
effect of the granted step is complete before the state is compared with the specification.
Free mode: arrive() only yields the GIL at random; events are logged with a sequence number taken
under the caller's lock (queue mutex for put/get)."""
import queue
import random
import threading
import time


class SchedAbort(BaseException):
    """Raised inside hooked threads to unwind them after a verdict (not an Exception on purpose)."""


class Sched:
    def __init__(self, forced=True, timeout=20.0, seed=0):
        self.forced = forced
        self.timeout = timeout
        self.cv = threading.Condition()
        self.parked = {}
        self.arrivals = {}
        self.granted = set()
        self.finished = set()
        self.aborted = False
        self.events = []  # free mode: (seq, kind, arg)
        self.seq = 0
        self.seqlock = threading.Lock()
        self.rng = random.Random(seed)
        self.problems = []
        self.roles = {}  # thread ident -> role, learnt at the first hook point of a thread (or set by the driver)

    # ---- called from hooked threads ------------------------------------------------------
    def register(self, role):
        self.roles[threading.get_ident()] = role

    def observed(self):
        """An OBSERVATION of shared state (queue.empty()/full()/qsize()) by a hooked thread, called after the value was
        taken: a pre-emption point.  Forced mode: the thread parks ("observe") until the controller needs its next
        action, so everything the other thread does in between happens after the observation (stale reads show).
        Free mode: yield / sleep at random.  Threads that never passed a hook point (the controller) are not parked."""
        role = self.roles.get(threading.get_ident())
        if role is None:
            return
        if not self.forced:
            r = self.rng.random()
            if r < 0.4:
                time.sleep(0)
            elif r < 0.7:
                time.sleep(self.rng.random() * 2e-3)
            return
        self.arrive(role, "observe", None)

    def arrive(self, role, kind, arg=None):
        self.roles.setdefault(threading.get_ident(), role)
        if not self.forced:
            r = self.rng.random()
            if r < 0.3:
                time.sleep(0)
            elif r < 0.36:
                time.sleep(self.rng.random() * 2e-4)
            return
        with self.cv:
            if self.aborted:
                raise SchedAbort()
            self.parked[role] = (kind, arg)
            self.arrivals[role] = self.arrivals.get(role, 0) + 1
            self.cv.notify_all()
            while role not in self.granted and not self.aborted:
                self.cv.wait(0.5)
            if self.aborted:
                raise SchedAbort()
            self.granted.discard(role)
            del self.parked[role]

    def finish(self, role):
        with self.cv:
            self.finished.add(role)
            self.parked.pop(role, None)
            self.cv.notify_all()

    def log(self, kind, arg=None, locked=False):
        """Free-mode event.  locked=True: the caller already holds the lock that orders it (queue mutex)."""
        if self.forced:
            return
        with self.seqlock:
            self.seq += 1
            self.events.append((self.seq, kind, arg))

    # ---- called from the controller --------------------------------------------------------
    def where(self, role, timeout=None):
        """Wait until role is parked or finished; returns (kind, arg), 'finished' or None (timeout)."""
        with self.cv:
            ok = self.cv.wait_for(lambda: role in self.parked or role in self.finished, timeout or self.timeout)
            if not ok:
                return None
            return self.parked.get(role, "finished")

    def step(self, role):
        """Grant one step to a parked role and wait until it parks again / finishes.  Returns where()."""
        with self.cv:
            n0 = self.arrivals.get(role, 0)
            self.granted.add(role)
            self.cv.notify_all()
            ok = self.cv.wait_for(lambda: self.arrivals.get(role, 0) > n0 or role in self.finished, self.timeout)
            if not ok:
                return None
            return self.parked.get(role, "finished")

    def abort(self):
        with self.cv:
            self.aborted = True
            self.cv.notify_all()


class SchedQueue(queue.Queue):
    """queue.Queue with hook points.  Class attribute `sched` is set by the driver before the code
    under test constructs the queue (providers.Queue is substituted by this class)."""

    sched = None
    created = []

    def __init__(self, maxsize=0):
        super().__init__(maxsize)
        self.sched = SchedQueue.sched  # bound at creation: a leaked thread of an earlier run keeps ITS scheduler
        SchedQueue.created.append(self)

    @staticmethod
    def _tag(item):
        if isinstance(item, dict) and item.get("image", 0) is None:
            return ("eos", None)
        return ("put", int(item["frame_idx"]) if isinstance(item, dict) else None)

    def put(self, item, block=True, timeout=None):
        s = self.sched
        kind, arg = self._tag(item)
        # A TIMED wait can always time out: the schedule in which the other thread stays away for longer than the timeout is
        # a legal one (virtual time).  A put with a finite timeout (or a non-blocking put) on a full queue fails right away;
        # the pinned code waits without a timeout, for which nothing changes.
        if (timeout is not None or not block) and self.maxsize > 0 and queue.Queue.qsize(self) >= self.maxsize:
            s.log("put_timed_out", arg)
            raise queue.Full
        s.arrive("prod", kind, arg)
        if s.forced:
            if self.maxsize > 0 and queue.Queue.qsize(self) >= self.maxsize:
                s.problems.append("put granted while the real queue is full (maxsize=%d)" % self.maxsize)
                s.abort()
                raise SchedAbort()
            return super().put(item, block=False)
        return super().put(item, block, timeout)

    def get(self, block=True, timeout=None):
        s = self.sched
        if (timeout is not None or not block) and queue.Queue.qsize(self) == 0:     # see put(): a timed wait can time out
            s.log("get_timed_out", None)
            raise queue.Empty
        s.arrive("cons", "get", None)
        if s.forced:
            if queue.Queue.qsize(self) == 0:
                s.problems.append("get granted while the real queue is empty")
                s.abort()
                raise SchedAbort()
            return super().get(block=False)
        return super().get(block, timeout)

    # _put/_get run under self.mutex: the linearisation points for the free-running trace
    def _put(self, item):
        super()._put(item)
        kind, arg = self._tag(item)
        self.sched.log(kind, arg, locked=True)

    def _get(self):
        item = super()._get()
        kind, arg = self._tag(item)
        self.sched.log("get", -1 if kind == "eos" else arg, locked=True)
        return item

    # observations of the queue state are pre-emption points for hooked threads (not for the controller)
    def empty(self):
        v = super().empty()
        self.sched.observed()
        return v

    def full(self):
        v = super().full()
        self.sched.observed()
        return v

    def qsize(self):
        v = super().qsize()
        self.sched.observed()
        return v

    def content(self):
        with self.mutex:
            return [(-1 if self._tag(x)[0] == "eos" else self._tag(x)[1]) for x in list(self.queue)]
