"""Run some of the repository's own tests under the tracing plugin and return the recorded calls."""
import json
import os
import subprocess
import sys
import tempfile

ROOT = os.path.dirname(os.path.dirname(os.path.abspath(__file__)))


def record(test_paths, repo, timeout=900):
    fd, out = tempfile.mkstemp(prefix="verif_pytrace_", suffix=".json")
    os.close(fd)
    try:
        env = dict(os.environ, VERIF_TRACE_OUT=out, PYTHONPATH=ROOT + os.pathsep + repo, VERIF_REPO=repo)
        code = "import sys; sys.path.insert(0, %r); from harness import shim; import pytest; sys.exit(pytest.main(sys.argv[1:]))" % ROOT
        p = subprocess.run([sys.executable, "-c", code, "-q", "-p", "no:cacheprovider", "-p", "harness.pytest_trace", *test_paths],
                           cwd=repo, env=env, stdout=subprocess.PIPE, stderr=subprocess.STDOUT, text=True, timeout=timeout)
        with open(out) as f:
            recs = json.load(f) if os.path.getsize(out) else []
        return recs, p.returncode, p.stdout[-800:]
    finally:
        os.unlink(out)
