#!/bin/sh
# Offline sanity: tools present, specs parse, sleap_nn imports through the shim.
set -e
cd "$(dirname "$0")"
command -v java >/dev/null
test -f /opt/veriftools/tla/tla2tools.jar
/venv/bin/python -c "import sys; sys.path.insert(0,'.'); from harness import shim; shim.assert_repo(); import jsonschema, hypothesis"
mkdir -p evidence replays
T=$(mktemp -d)
trap 'rm -rf "$T"' EXIT
for f in spec/*.tla; do
  case "$f" in *Judge_*|*Trace_*|*MC_CaseSpace*) continue;; esac
  (cd spec && java -cp /opt/veriftools/tla/tla2tools.jar:/opt/veriftools/tla/CommunityModules-deps.jar tla2sany.SANY "$(basename $f)" > "$T/sany.out" 2>&1) || { cat "$T/sany.out"; echo "SANY failed on $f"; exit 1; }
  if grep -q "Semantic errors\|Parse Error\|Fatal" "$T/sany.out"; then cat "$T/sany.out"; echo "SANY failed on $f"; exit 1; fi
done
echo setup ok
